use std::env;
use std::fs;
use std::path::PathBuf;

fn main() {
    let root = env::var("FML_ROOT").unwrap_or_else(|_| "/repo".to_string());
    println!("cargo:rerun-if-env-changed=FML_ROOT");
    println!("cargo:rerun-if-changed={}/src/fml.lalrpop", root);
    println!("cargo:rustc-env=FMLV_FML_ROOT={}", root);
    let out = PathBuf::from(env::var("OUT_DIR").unwrap());
    // LALRPOP on FML's own grammar file, output into OUT_DIR (never into the repository).
    lalrpop::Configuration::new()
        .set_in_dir(format!("{}/src", root))
        .set_out_dir(&out)
        .process_file(format!("{}/src/fml.lalrpop", root))
        .expect("lalrpop failed on FML grammar");
    let mods = format!(
        "#[allow(warnings)] #[path = \"{root}/src/parser/mod.rs\"] pub mod parser;\n\
         #[allow(warnings)] #[path = \"{root}/src/bytecode/mod.rs\"] pub mod bytecode;\n",
        root = root
    );
    fs::write(out.join("fml_mods.rs"), mods).unwrap();
}
