//! Static fragment checker (DESIGN 2.2): is a program inside the fragment on
//! which static (FML) and dynamic (README / reference semantics) name resolution
//! coincide?  Used to vet IR-level shrink candidates; conservative (it may
//! reject programs that are fine, never the other way round as far as the rules
//! of 2.2 go).

use crate::ir::*;
use std::collections::{BTreeMap, BTreeSet};

#[derive(Clone, Copy, PartialEq, Debug)]
enum Def {
    Yes,
    Maybe,
}

struct Frame {
    scopes: Vec<BTreeMap<String, Def>>,
    top: bool,
    cond: usize,
    foreign: Vec<(String, usize)>,
}

struct Checker {
    frames: Vec<Frame>,
    globals: BTreeMap<String, Def>,
    global_let_anywhere: BTreeSet<String>,
    /// names a function body mentions (minus its parameters): what it may need as globals
    fun_needs: BTreeMap<String, BTreeSet<String>>,
    /// the same per method name, united over all methods of that name
    method_needs: BTreeMap<String, BTreeSet<String>>,
    /// pre-pass: names that a body resolves to globals
    collect: Option<BTreeSet<String>>,
}

/// the names a function / method body resolves to globals (exact scope walk)
fn free_names(params: &[String], method: bool, body: &E) -> BTreeSet<String> {
    let mut c = Checker {
        frames: vec![Frame { scopes: vec![BTreeMap::new()], top: true, cond: 0, foreign: vec![] }],
        globals: BTreeMap::new(),
        global_let_anywhere: BTreeSet::new(),
        fun_needs: BTreeMap::new(),
        method_needs: BTreeMap::new(),
        collect: Some(BTreeSet::new()),
    };
    let _ = c.body(params, method, body);
    c.collect.unwrap_or_default()
}

/// names `let` at the scope level of `e` (not inside nested blocks, functions or methods)
fn scope_level_lets(e: &E, out: &mut BTreeSet<String>) {
    match e {
        E::Let(n, v) => {
            out.insert(n.clone());
            scope_level_lets(v, out);
        }
        E::Block(_) | E::Fun(..) => {}
        E::Object(p, ms) => {
            if let Some(p) = p {
                scope_level_lets(p, out);
            }
            for m in ms {
                if let Member::Field(_, x) = m {
                    scope_level_lets(x, out);
                }
            }
        }
        other => {
            for c in other.children() {
                scope_level_lets(c, out);
            }
        }
    }
}

fn mentioned_names(e: &E, out: &mut BTreeSet<String>) {
    match e {
        E::Var(n) => {
            out.insert(n.clone());
        }
        E::Assign(n, v) => {
            out.insert(n.clone());
            mentioned_names(v, out);
        }
        E::Object(p, ms) => {
            if let Some(p) = p {
                mentioned_names(p, out);
            }
            for m in ms {
                match m {
                    Member::Field(_, x) => mentioned_names(x, out),
                    Member::Method(_, _, b) => mentioned_names(b, out),
                }
            }
        }
        other => {
            for c in other.children() {
                mentioned_names(c, out);
            }
        }
    }
}

fn called_names(e: &E, funs: &mut BTreeSet<String>, methods: &mut BTreeSet<String>) {
    match e {
        E::Call(f, _) => {
            funs.insert(f.clone());
        }
        E::MCall(_, m, _) => {
            methods.insert(m.clone());
        }
        E::Bin(op, ..) => {
            methods.insert(op.clone());
        }
        E::Index(..) => {
            methods.insert("get".into());
        }
        E::IndexSet(..) => {
            methods.insert("set".into());
        }
        _ => {}
    }
    match e {
        E::Object(p, ms) => {
            if let Some(p) = p {
                called_names(p, funs, methods);
            }
            for m in ms {
                match m {
                    Member::Field(_, x) => called_names(x, funs, methods),
                    Member::Method(_, _, b) => called_names(b, funs, methods),
                }
            }
        }
        other => {
            for c in other.children() {
                called_names(c, funs, methods);
            }
        }
    }
}

fn collect_methods(e: &E, out: &mut Vec<(String, Vec<String>, E)>) {
    if let E::Object(_, ms) = e {
        for m in ms {
            if let Member::Method(n, ps, b) = m {
                out.push((n.clone(), ps.clone(), b.clone()));
            }
        }
    }
    match e {
        E::Object(p, ms) => {
            if let Some(p) = p {
                collect_methods(p, out);
            }
            for m in ms {
                match m {
                    Member::Field(_, x) => collect_methods(x, out),
                    Member::Method(_, _, b) => collect_methods(b, out),
                }
            }
        }
        other => {
            for c in other.children() {
                collect_methods(c, out);
            }
        }
    }
}

fn has_duplicates(v: &[String]) -> bool {
    let mut s = BTreeSet::new();
    v.iter().any(|x| !s.insert(x.clone()))
}

pub fn check(prog: &Prog) -> bool {
    // duplicate function names / parameters / members
    let fun_names: Vec<String> = prog.iter().filter_map(|e| if let E::Fun(n, ..) = e { Some(n.clone()) } else { None }).collect();
    if has_duplicates(&fun_names) {
        return false;
    }
    let mut c = Checker {
        frames: vec![Frame { scopes: vec![BTreeMap::new()], top: true, cond: 0, foreign: vec![] }],
        globals: BTreeMap::new(),
        global_let_anywhere: BTreeSet::new(),
        fun_needs: BTreeMap::new(),
        method_needs: BTreeMap::new(),
        collect: None,
    };
    for e in prog {
        if !matches!(e, E::Fun(..)) {
            scope_level_lets(e, &mut c.global_let_anywhere);
        }
    }
    if c.global_let_anywhere.iter().any(|g| fun_names.contains(g)) {
        return false; // variable / function name clash
    }
    // what functions and methods may need (transitively through what they call)
    let mut methods: Vec<(String, Vec<String>, E)> = vec![];
    for e in prog {
        collect_methods(e, &mut methods);
    }
    let mut direct_f: BTreeMap<String, (BTreeSet<String>, BTreeSet<String>, BTreeSet<String>)> = BTreeMap::new();
    for e in prog {
        if let E::Fun(n, ps, b) = e {
            if has_duplicates(ps) || ps.iter().any(|p| p == "this") {
                return false;
            }
            let names = free_names(ps, false, b);
            let (mut f, mut m) = (BTreeSet::new(), BTreeSet::new());
            called_names(b, &mut f, &mut m);
            direct_f.insert(n.clone(), (names, f, m));
        }
    }
    let mut direct_m: BTreeMap<String, (BTreeSet<String>, BTreeSet<String>, BTreeSet<String>)> = BTreeMap::new();
    for (n, ps, b) in &methods {
        if has_duplicates(ps) || ps.iter().any(|p| p == "this") {
            return false;
        }
        let names = free_names(ps, true, b);
        let (mut f, mut m) = (BTreeSet::new(), BTreeSet::new());
        called_names(b, &mut f, &mut m);
        let ent = direct_m.entry(n.clone()).or_insert((BTreeSet::new(), BTreeSet::new(), BTreeSet::new()));
        ent.0.extend(names);
        ent.1.extend(f);
        ent.2.extend(m);
    }
    // transitive closure (small programs: iterate to a fixed point)
    let close = |start_f: &BTreeSet<String>, start_m: &BTreeSet<String>, start_names: &BTreeSet<String>| -> BTreeSet<String> {
        let mut names = start_names.clone();
        let mut seen_f: BTreeSet<String> = BTreeSet::new();
        let mut seen_m: BTreeSet<String> = BTreeSet::new();
        let mut todo_f: Vec<String> = start_f.iter().cloned().collect();
        let mut todo_m: Vec<String> = start_m.iter().cloned().collect();
        while !todo_f.is_empty() || !todo_m.is_empty() {
            if let Some(f) = todo_f.pop() {
                if seen_f.insert(f.clone()) {
                    if let Some((n, ff, mm)) = direct_f.get(&f) {
                        names.extend(n.iter().cloned());
                        todo_f.extend(ff.iter().cloned());
                        todo_m.extend(mm.iter().cloned());
                    }
                }
            }
            if let Some(m) = todo_m.pop() {
                if seen_m.insert(m.clone()) {
                    if let Some((n, ff, mm)) = direct_m.get(&m) {
                        names.extend(n.iter().cloned());
                        todo_f.extend(ff.iter().cloned());
                        todo_m.extend(mm.iter().cloned());
                    }
                }
            }
        }
        names
    };
    for (f, (n, ff, mm)) in &direct_f {
        c.fun_needs.insert(f.clone(), close(ff, mm, n));
    }
    for (m, (n, ff, mm)) in &direct_m {
        c.method_needs.insert(m.clone(), close(ff, mm, n));
    }
    // walk the top level in evaluation order
    for e in prog {
        match e {
            E::Fun(_, ps, b) => {
                if !c.body(ps, false, b) {
                    return false;
                }
            }
            other => {
                if !c.expr(other) {
                    return false;
                }
            }
        }
    }
    true
}

impl Checker {
    fn frame(&mut self) -> &mut Frame {
        self.frames.last_mut().unwrap()
    }
    fn at_global_scope(&self) -> bool {
        let f = self.frames.last().unwrap();
        f.top && f.scopes.len() == 1
    }

    /// a function or method body: own frame, parameters definitely defined
    fn body(&mut self, params: &[String], method: bool, b: &E) -> bool {
        let mut scope = BTreeMap::new();
        if method {
            scope.insert("this".to_string(), Def::Yes);
        }
        for p in params {
            scope.insert(p.clone(), Def::Yes);
        }
        self.frames.push(Frame { scopes: vec![scope], top: false, cond: 0, foreign: vec![] });
        // globals are judged at the call sites (needs_ok); inside the body a name that is not
        // local is assumed to be a global
        let ok = self.expr(b);
        self.frames.pop();
        ok
    }

    fn use_name(&mut self, n: &str) -> bool {
        let f = self.frames.last().unwrap();
        let found_at = f.scopes.iter().rposition(|s| s.contains_key(n));
        if f.foreign.iter().any(|(fv, dep)| fv == n && found_at.map(|i| i < *dep).unwrap_or(true)) {
            return false;
        }
        if !f.top {
            // inside a function/method body: locals must be definite; other names are globals
            // whose state is checked where the function is called
            return match found_at {
                Some(i) => f.scopes[i][n] == Def::Yes,
                None => {
                    if let Some(set) = &mut self.collect {
                        set.insert(n.to_string());
                    }
                    true
                }
            };
        }
        let lo = 1; // scope 0 of the top frame is the global scope
        match found_at {
            Some(i) if i >= lo => f.scopes[i][n] == Def::Yes,
            _ => self.global_ok(n),
        }
    }

    fn global_ok(&self, n: &str) -> bool {
        match self.globals.get(n) {
            Some(Def::Yes) => true,
            Some(Def::Maybe) => false,
            None => !self.global_let_anywhere.contains(n),
        }
    }

    fn needs_ok(&self, needs: Option<&BTreeSet<String>>) -> bool {
        match needs {
            None => true,
            Some(set) => set.iter().all(|n| self.global_ok(n)),
        }
    }

    fn define(&mut self, n: &str) -> bool {
        let def = if self.frame().cond > 0 { Def::Maybe } else { Def::Yes };
        if self.at_global_scope() {
            if self.globals.contains_key(n) {
                return false;
            }
            self.globals.insert(n.to_string(), def);
        } else {
            let s = self.frame().scopes.last_mut().unwrap();
            if s.contains_key(n) {
                return false;
            }
            s.insert(n.to_string(), def);
        }
        true
    }

    fn method_call_ok(&self, name: &str) -> bool {
        self.needs_ok(self.method_needs.get(name))
    }

    fn expr(&mut self, e: &E) -> bool {
        match e {
            E::Int(_) | E::Bool(_) | E::Null => true,
            E::Var(n) => self.use_name(n),
            E::Let(n, v) => self.expr(v) && self.define(n),
            E::Assign(n, v) => {
                let mut lets = BTreeSet::new();
                scope_level_lets(v, &mut lets);
                if lets.contains(n) {
                    return false; // the target is resolved before the value is compiled
                }
                self.expr(v) && self.use_name(n)
            }
            E::Block(items) => {
                if items.is_empty() {
                    return true;
                }
                let f = self.frame();
                f.scopes.push(BTreeMap::new());
                let saved = f.cond;
                f.cond = 0;
                let mut ok = true;
                for x in items {
                    if !self.expr(x) {
                        ok = false;
                        break;
                    }
                }
                let f = self.frame();
                f.cond = saved;
                f.scopes.pop();
                ok
            }
            E::If(c, t, el) => {
                if !self.expr(c) {
                    return false;
                }
                self.frame().cond += 1;
                let mark = self.frame().foreign.len();
                if let Some(x) = el {
                    let mut lets = BTreeSet::new();
                    scope_level_lets(x, &mut lets);
                    let depth = self.frame().scopes.len();
                    for n in lets {
                        self.frame().foreign.push((n, depth));
                    }
                }
                let mut ok = self.expr(t);
                self.frame().foreign.truncate(mark);
                if ok {
                    if let Some(x) = el {
                        ok = self.expr(x);
                    }
                }
                self.frame().cond -= 1;
                ok
            }
            E::While(c, b) => {
                if !self.expr(c) {
                    return false;
                }
                self.frame().cond += 1;
                let ok = self.expr(b);
                self.frame().cond -= 1;
                ok
            }
            E::Array(s, init) => {
                if !self.expr(s) {
                    return false;
                }
                let simple = matches!(**init, E::Int(_) | E::Bool(_) | E::Null | E::Var(_) | E::Field(..));
                if simple {
                    self.expr(init)
                } else {
                    self.frame().cond += 1;
                    let ok = self.expr(init);
                    self.frame().cond -= 1;
                    ok
                }
            }
            E::Index(a, i) => self.expr(a) && self.expr(i) && self.method_call_ok("get"),
            E::IndexSet(a, i, v) => self.expr(a) && self.expr(i) && self.expr(v) && self.method_call_ok("set"),
            E::Object(p, ms) => {
                if let Some(p) = p {
                    if !self.expr(p) {
                        return false;
                    }
                }
                let mut fields = vec![];
                let mut meths = vec![];
                for m in ms {
                    match m {
                        Member::Field(n, x) => {
                            fields.push(n.clone());
                            if !self.expr(x) {
                                return false;
                            }
                        }
                        Member::Method(n, ps, b) => {
                            meths.push(n.clone());
                            if !self.body(ps, true, b) {
                                return false;
                            }
                        }
                    }
                }
                // fields and methods are separate name spaces: a field may be named like a method
                // of the same object (the generator does that on purpose)
                if has_duplicates(&fields) || has_duplicates(&meths) {
                    return false;
                }
                true
            }
            E::Field(o, _) => self.expr(o),
            E::FieldSet(o, _, v) => self.expr(o) && self.expr(v),
            E::Call(f, args) => {
                for a in args {
                    if !self.expr(a) {
                        return false;
                    }
                }
                let needs = self.fun_needs.get(f).cloned();
                self.needs_ok(needs.as_ref())
            }
            E::MCall(r, m, args) => {
                if !self.expr(r) {
                    return false;
                }
                for a in args {
                    if !self.expr(a) {
                        return false;
                    }
                }
                self.method_call_ok(m)
            }
            E::Bin(op, l, r) => self.expr(l) && self.expr(r) && self.method_call_ok(op),
            E::Print(_, args) => {
                for a in args {
                    if !self.expr(a) {
                        return false;
                    }
                }
                true
            }
            E::Fun(..) => false, // function definitions only at the top level
        }
    }
}
