//! fmlverif: property-based verification engine for kondziu/FML.
//! FML's own modules are compiled in unmodified from $FML_ROOT (default /repo).
#![allow(clippy::all)]
#![allow(macro_expanded_macro_exports_accessed_by_absolute_paths)]
#[macro_use]
extern crate lalrpop_util;

lalrpop_mod!(#[allow(warnings)] pub fml);
include!(concat!(env!("OUT_DIR"), "/fml_mods.rs"));

pub const FML_ROOT: &str = env!("FMLV_FML_ROOT");

pub mod bc;
pub mod cli;
pub mod fmlrun;
pub mod fragment;
pub mod gen;
pub mod harness;
pub mod ir;
pub mod props;
pub mod refsem;
pub mod render;
pub mod shrink;
pub mod tape;
pub mod tools;
