//! Own expression IR, independent of FML's `parser::AST`, shared by generators,
//! the renderer and the reference semantics.

use serde::{Deserialize, Serialize};

pub const OPS: [&str; 13] = ["*", "/", "%", "+", "-", "==", "!=", "<", "<=", ">", ">=", "&", "|"];

/// README precedence (higher binds tighter): 5 factor, 4 additive, 3 comparison,
/// 2 conjunction, 1 disjunction.
pub fn prec(op: &str) -> u8 {
    match op {
        "*" | "/" | "%" => 5,
        "+" | "-" => 4,
        "==" | "!=" | "<" | "<=" | ">" | ">=" => 3,
        "&" => 2,
        "|" => 1,
        _ => 0,
    }
}

pub fn is_op(name: &str) -> bool {
    prec(name) > 0
}

#[derive(Clone, Debug, PartialEq, Eq, Hash, Serialize, Deserialize)]
pub enum E {
    Int(i32),
    Bool(bool),
    Null,
    Var(String),
    Let(String, Box<E>),
    Assign(String, Box<E>),
    /// `begin e1; e2 end`; the empty block is the parser's `null`
    Block(Vec<E>),
    If(Box<E>, Box<E>, Option<Box<E>>),
    While(Box<E>, Box<E>),
    Array(Box<E>, Box<E>),
    Index(Box<E>, Box<E>),
    IndexSet(Box<E>, Box<E>, Box<E>),
    Object(Option<Box<E>>, Vec<Member>),
    Field(Box<E>, String),
    FieldSet(Box<E>, String, Box<E>),
    Call(String, Vec<E>),
    /// explicit method-call spelling `r.name(args)`; name may be an operator symbol
    MCall(Box<E>, String, Vec<E>),
    /// infix spelling `l op r` (the same tree as MCall(l, op, [r]))
    Bin(String, Box<E>, Box<E>),
    /// format string kept raw (escapes undecoded), as in the AST
    Print(String, Vec<E>),
    /// top-level function definition
    Fun(String, Vec<String>, Box<E>),
}

#[derive(Clone, Debug, PartialEq, Eq, Hash, Serialize, Deserialize)]
pub enum Member {
    Field(String, E),
    Method(String, Vec<String>, E),
}

pub type Prog = Vec<E>;

pub fn bx(e: E) -> Box<E> {
    Box::new(e)
}
pub fn var(s: &str) -> E {
    E::Var(s.to_string())
}
pub fn let_(s: &str, e: E) -> E {
    E::Let(s.to_string(), bx(e))
}
pub fn assign(s: &str, e: E) -> E {
    E::Assign(s.to_string(), bx(e))
}
pub fn bin(op: &str, l: E, r: E) -> E {
    E::Bin(op.to_string(), bx(l), bx(r))
}
pub fn call(f: &str, args: Vec<E>) -> E {
    E::Call(f.to_string(), args)
}
pub fn mcall(r: E, m: &str, args: Vec<E>) -> E {
    E::MCall(bx(r), m.to_string(), args)
}
pub fn print(f: &str, args: Vec<E>) -> E {
    E::Print(f.to_string(), args)
}
pub fn field(o: E, f: &str) -> E {
    E::Field(bx(o), f.to_string())
}
pub fn index(a: E, i: E) -> E {
    E::Index(bx(a), bx(i))
}

impl E {
    /// Children in evaluation order (methods' bodies are not children).
    pub fn children(&self) -> Vec<&E> {
        match self {
            E::Int(_) | E::Bool(_) | E::Null | E::Var(_) => vec![],
            E::Let(_, v) | E::Assign(_, v) => vec![v],
            E::Block(v) => v.iter().collect(),
            E::If(c, t, e) => {
                let mut r: Vec<&E> = vec![c, t];
                if let Some(e) = e {
                    r.push(e)
                }
                r
            }
            E::While(c, b) => vec![c, b],
            E::Array(s, v) => vec![s, v],
            E::Index(a, i) => vec![a, i],
            E::IndexSet(a, i, v) => vec![a, i, v],
            E::Object(p, ms) => {
                let mut r: Vec<&E> = vec![];
                if let Some(p) = p {
                    r.push(p)
                }
                for m in ms {
                    match m {
                        Member::Field(_, e) => r.push(e),
                        Member::Method(_, _, b) => r.push(b),
                    }
                }
                r
            }
            E::Field(o, _) => vec![o],
            E::FieldSet(o, _, v) => vec![o, v],
            E::Call(_, a) => a.iter().collect(),
            E::MCall(r, _, a) => {
                let mut v: Vec<&E> = vec![r];
                v.extend(a.iter());
                v
            }
            E::Bin(_, l, r) => vec![l, r],
            E::Print(_, a) => a.iter().collect(),
            E::Fun(_, _, b) => vec![b],
        }
    }

    pub fn size(&self) -> usize {
        1 + self.children().iter().map(|c| c.size()).sum::<usize>()
    }

    pub fn depth(&self) -> usize {
        1 + self.children().iter().map(|c| c.depth()).max().unwrap_or(0)
    }

    /// Normal form used when comparing with what the parser produced:
    /// infix -> method call, missing else -> null, missing parent -> null,
    /// empty block -> null.
    pub fn norm(&self) -> E {
        match self {
            E::Int(_) | E::Bool(_) | E::Null | E::Var(_) => self.clone(),
            E::Let(n, v) => E::Let(n.clone(), bx(v.norm())),
            E::Assign(n, v) => E::Assign(n.clone(), bx(v.norm())),
            E::Block(v) => {
                if v.is_empty() {
                    E::Null
                } else {
                    E::Block(v.iter().map(|e| e.norm()).collect())
                }
            }
            E::If(c, t, e) => E::If(
                bx(c.norm()),
                bx(t.norm()),
                Some(bx(e.as_ref().map(|e| e.norm()).unwrap_or(E::Null))),
            ),
            E::While(c, b) => E::While(bx(c.norm()), bx(b.norm())),
            E::Array(s, v) => E::Array(bx(s.norm()), bx(v.norm())),
            E::Index(a, i) => E::Index(bx(a.norm()), bx(i.norm())),
            E::IndexSet(a, i, v) => E::IndexSet(bx(a.norm()), bx(i.norm()), bx(v.norm())),
            E::Object(p, ms) => E::Object(
                Some(bx(p.as_ref().map(|p| p.norm()).unwrap_or(E::Null))),
                ms.iter()
                    .map(|m| match m {
                        Member::Field(n, e) => Member::Field(n.clone(), e.norm()),
                        Member::Method(n, ps, b) => Member::Method(n.clone(), ps.clone(), b.norm()),
                    })
                    .collect(),
            ),
            E::Field(o, f) => E::Field(bx(o.norm()), f.clone()),
            E::FieldSet(o, f, v) => E::FieldSet(bx(o.norm()), f.clone(), bx(v.norm())),
            E::Call(f, a) => E::Call(f.clone(), a.iter().map(|e| e.norm()).collect()),
            E::MCall(r, m, a) => E::MCall(bx(r.norm()), m.clone(), a.iter().map(|e| e.norm()).collect()),
            E::Bin(op, l, r) => E::MCall(bx(l.norm()), op.clone(), vec![r.norm()]),
            E::Print(f, a) => E::Print(f.clone(), a.iter().map(|e| e.norm()).collect()),
            E::Fun(n, ps, b) => E::Fun(n.clone(), ps.clone(), bx(b.norm())),
        }
    }
}

pub fn norm_prog(p: &Prog) -> Prog {
    if p.is_empty() {
        vec![E::Null]
    } else {
        p.iter().map(|e| e.norm()).collect()
    }
}

/// Structural conversion of the parser's AST (total on the parser's range).
/// `Top` is flattened to the program vector.
pub fn from_fml_ast(ast: &crate::parser::AST) -> Prog {
    use crate::parser::AST;
    match ast {
        AST::Top(v) => v.iter().map(|e| conv(e)).collect(),
        other => vec![conv(other)],
    }
}

fn conv(ast: &crate::parser::AST) -> E {
    use crate::parser::AST;
    match ast {
        AST::Integer(i) => E::Int(*i),
        AST::Boolean(b) => E::Bool(*b),
        AST::Null => E::Null,
        AST::Variable { name, value } => E::Let(name.0.clone(), bx(conv(value))),
        AST::Array { size, value } => E::Array(bx(conv(size)), bx(conv(value))),
        AST::Object { extends, members } => E::Object(
            Some(bx(conv(extends))),
            members
                .iter()
                .map(|m| match &**m {
                    AST::Variable { name, value } => Member::Field(name.0.clone(), conv(value)),
                    AST::Function { name, parameters, body } => Member::Method(
                        name.0.clone(),
                        parameters.iter().map(|p| p.0.clone()).collect(),
                        conv(body),
                    ),
                    other => Member::Field("<?>".to_string(), conv(other)),
                })
                .collect(),
        ),
        AST::AccessVariable { name } => E::Var(name.0.clone()),
        AST::AccessField { object, field } => E::Field(bx(conv(object)), field.0.clone()),
        AST::AccessArray { array, index } => E::Index(bx(conv(array)), bx(conv(index))),
        AST::AssignVariable { name, value } => E::Assign(name.0.clone(), bx(conv(value))),
        AST::AssignField { object, field, value } => {
            E::FieldSet(bx(conv(object)), field.0.clone(), bx(conv(value)))
        }
        AST::AssignArray { array, index, value } => {
            E::IndexSet(bx(conv(array)), bx(conv(index)), bx(conv(value)))
        }
        AST::Function { name, parameters, body } => E::Fun(
            name.0.clone(),
            parameters.iter().map(|p| p.0.clone()).collect(),
            bx(conv(body)),
        ),
        AST::CallFunction { name, arguments } => {
            E::Call(name.0.clone(), arguments.iter().map(|a| conv(a)).collect())
        }
        AST::CallMethod { object, name, arguments } => E::MCall(
            bx(conv(object)),
            name.0.clone(),
            arguments.iter().map(|a| conv(a)).collect(),
        ),
        AST::Top(v) => E::Block(v.iter().map(|e| conv(e)).collect()),
        AST::Block(v) => E::Block(v.iter().map(|e| conv(e)).collect()),
        AST::Loop { condition, body } => E::While(bx(conv(condition)), bx(conv(body))),
        AST::Conditional { condition, consequent, alternative } => {
            E::If(bx(conv(condition)), bx(conv(consequent)), Some(bx(conv(alternative))))
        }
        AST::Print { format, arguments } => {
            E::Print(format.clone(), arguments.iter().map(|a| conv(a)).collect())
        }
    }
}
