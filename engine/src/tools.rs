//! Developer tools: print generated programs, run a source file through both
//! semantics, calibration.

use crate::gen::prog::{generate, Profile};
use crate::tape::{mix, Tape};

pub fn profile_by_name(n: &str) -> Profile {
    match n {
        "discard" => Profile::discard_heavy(),
        "scope" => Profile::scope_heavy(),
        "object" => Profile::object_heavy(),
        "alloc" => Profile::alloc_heavy(),
        "names" => Profile::many_names(),
        "exotic" => Profile::exotic(),
        _ => Profile::full(),
    }
}

pub fn random_tape(seed: u64, len: usize) -> Vec<u8> {
    let mut x = seed;
    let mut v = Vec::with_capacity(len);
    while v.len() < len {
        x = mix(x);
        v.extend_from_slice(&x.to_le_bytes());
    }
    v.truncate(len);
    v
}

pub fn print_generated(prof: &Profile, seed: u64, count: u64) {
    for i in 0..count {
        let tape = random_tape(mix(seed + i), 400);
        let mut t = Tape::new(&tape);
        let g = generate(&mut t, prof);
        let r = crate::refsem::run(&g.prog, crate::refsem::DEFAULT_FUEL);
        println!("// ---- case {} fault={:?} outcome={:?} steps={} tape_used={}", i, g.fault, r.outcome, r.steps, t.consumed());
        print!("{}", crate::render::pretty(&g.prog));
        println!("// expected output: {:?}", r.out);
    }
}

pub fn tool_main(args: &[String]) -> i32 {
    match args[0].as_str() {
        "refrun" => {
            // run a source file through FML's parser + the reference semantics
            let src = std::fs::read_to_string(&args[1]).unwrap();
            let ast = crate::fmlrun::parse(&src).unwrap();
            let prog = crate::ir::from_fml_ast(&ast);
            let r = crate::refsem::run(&prog, 50_000_000);
            print!("{}", r.out);
            eprintln!("outcome: {:?} steps {}", r.outcome, r.steps);
            0
        }
        "fragment-rate" => {
            // how many generated programs does the static fragment checker accept? (it should
            // accept practically all of them: they are inside the fragment by construction)
            let prof = profile_by_name(args.get(1).map(|s| s.as_str()).unwrap_or("full"));
            let n: u64 = args.get(2).and_then(|s| s.parse().ok()).unwrap_or(5000);
            let mut ok = 0;
            let mut shown = 0;
            for i in 0..n {
                let tape = random_tape(mix(i + 99), 500);
                let mut t = Tape::new(&tape);
                let g = generate(&mut t, &prof);
                if crate::fragment::check(&g.prog) {
                    ok += 1;
                } else if shown < 3 {
                    shown += 1;
                    println!("REJECTED:\n{}", crate::render::pretty(&g.prog));
                }
            }
            println!("{} of {} accepted", ok, n);
            0
        }
        "decode-tape" => {
            // print the program a tape decodes to under a profile: decode-tape <profile> <hex>
            let prof = profile_by_name(args.get(1).map(|s| s.as_str()).unwrap_or("full"));
            let bytes = crate::tape::unhex(args.get(2).map(|s| s.as_str()).unwrap_or("")).unwrap_or_default();
            let mut t = Tape::new(&bytes);
            let g = generate(&mut t, &prof);
            print!("{}", crate::render::pretty(&g.prog));
            println!("// fault={:?} fragment-check={}", g.fault, crate::fragment::check(&g.prog));
            0
        }
        "c12-count" => {
            let n: usize = args.get(1).and_then(|s| s.parse().ok()).unwrap_or(4);
            let d: usize = args.get(2).and_then(|s| s.parse().ok()).unwrap_or(2);
            let mut c = 0u64;
            crate::props::c12::for_each_sequence(n, d, &mut |_s| c += 1);
            println!("{} sequences (x4 contexts)", c);
            0
        }
        "c13-count" => {
            println!("{}", crate::props::c13::count_space(std::env::var("LIM").ok().and_then(|s| s.parse().ok()).unwrap_or(1_000_000)));
            0
        }
        "calib-make" => calib_make(&format!("{}/corpus/calibration", crate::harness::verif_root())),
        "calib-check" => match calib_check(&format!("{}/corpus/calibration", crate::harness::verif_root())) {
            Ok((n, w)) => {
                println!("calibration ok: {} stored programs, {} with maintainers' expectations reproduced", n, w);
                0
            }
            Err(e) => {
                eprintln!("{}", e);
                2
            }
        },
        _ => {
            eprintln!("unknown command {}", args[0]);
            2
        }
    }
}

// ------------------------------------------------------------------ calibration

/// Maintainers' expectations embedded in a test source as `// > text` lines.
pub fn embedded_expectation(src: &str) -> Option<String> {
    let mut out = String::new();
    let mut any = false;
    for line in src.lines() {
        if let Some(rest) = line.strip_prefix("// >") {
            any = true;
            let rest = rest.strip_prefix(' ').unwrap_or(rest);
            out.push_str(rest);
            out.push('\n');
        }
    }
    if any {
        Some(out)
    } else {
        None
    }
}

pub fn repo_fml_files(root: &str) -> Vec<std::path::PathBuf> {
    let mut out = vec![];
    for d in &["tests/misc", "tests/bc_test_1", "tests/bc_test_2", "tests/bc_test_3", "examples"] {
        if let Ok(rd) = std::fs::read_dir(format!("{}/{}", root, d)) {
            for e in rd.flatten() {
                let p = e.path();
                if p.extension().map(|x| x == "fml").unwrap_or(false) {
                    out.push(p);
                }
            }
        }
    }
    out.sort();
    out
}

/// Development-time: convert the repository's .fml programs (real parser of the
/// pinned tree) into stored IR + the maintainers' expectation.
pub fn calib_make(dir: &str) -> i32 {
    std::fs::create_dir_all(dir).unwrap();
    for f in repo_fml_files(crate::FML_ROOT) {
        let src = std::fs::read_to_string(&f).unwrap();
        let ast = match crate::fmlrun::parse(&src) {
            Ok(a) => a,
            Err(e) => {
                eprintln!("skip {} (does not parse: {})", f.display(), &e[..e.len().min(80)]);
                continue;
            }
        };
        let prog = crate::ir::from_fml_ast(&ast);
        // only tests/misc and examples carry current expectations; the `// >` lines in
        // tests/bc_test_* are stale relative to the pinned implementation (e.g. unsorted fields)
        let current = f.to_string_lossy().contains("/tests/misc/") || f.to_string_lossy().contains("/examples/");
        let exp = if current { embedded_expectation(&src) } else { None };
        let rel = f.strip_prefix(crate::FML_ROOT).unwrap().to_string_lossy().trim_start_matches('/').replace('/', "__");
        let body = serde_json::json!({"origin": f.strip_prefix(crate::FML_ROOT).unwrap().to_string_lossy(), "expected": exp, "ir": serde_json::to_value(&prog).unwrap()});
        std::fs::write(format!("{}/{}.json", dir, rel), serde_json::to_string(&body).unwrap()).unwrap();
        println!("stored {} (expectation: {})", rel, exp.is_some());
    }
    0
}

/// The reference semantics must reproduce every stored maintainers' expectation.
pub fn calib_check(dir: &str) -> Result<(usize, usize), String> {
    let mut n = 0;
    let mut with_exp = 0;
    let mut files: Vec<_> = std::fs::read_dir(dir).map_err(|e| format!("{}: {}", dir, e))?.flatten().map(|e| e.path()).collect();
    files.sort();
    for f in files {
        if f.extension().map(|x| x != "json").unwrap_or(true) {
            continue;
        }
        let v: serde_json::Value = crate::tools::json_deep(&std::fs::read_to_string(&f).unwrap()).map_err(|e| e.to_string())?;
        let prog: crate::ir::Prog = serde_json::from_value(v["ir"].clone()).map_err(|e| format!("{}: {}", f.display(), e))?;
        n += 1;
        if let Some(exp) = v["expected"].as_str() {
            with_exp += 1;
            let r = crate::refsem::run(&prog, 100_000_000);
            if r.out != exp {
                return Err(format!(
                    "calibration mismatch on {}: outcome {:?}\nexpected {:?}\nrefsem   {:?}",
                    f.display(),
                    r.outcome,
                    exp,
                    r.out
                ));
            }
        }
    }
    Ok((n, with_exp))
}

/// serde_json without its recursion limit (stored IR can be deeply nested).
pub fn json_deep(txt: &str) -> Result<serde_json::Value, String> {
    let mut de = serde_json::Deserializer::from_str(txt);
    de.disable_recursion_limit();
    serde::de::Deserialize::deserialize(&mut de).map_err(|e: serde_json::Error| e.to_string())
}
