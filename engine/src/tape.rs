//! Choice tape: every random decision of every generator is read from a byte
//! slice.  Decoding is total (an exhausted tape yields 0 = the simplest
//! alternative) and monotone (a smaller byte picks an earlier alternative), so
//! proptest's shrinking of the `Vec<u8>` and libFuzzer's mutations both map to
//! valid, smaller cases.

pub struct Tape<'a> {
    data: &'a [u8],
    pos: usize,
}

impl<'a> Tape<'a> {
    pub fn new(data: &'a [u8]) -> Self {
        Tape { data, pos: 0 }
    }
    pub fn exhausted(&self) -> bool {
        self.pos >= self.data.len()
    }
    pub fn consumed(&self) -> usize {
        self.pos
    }
    pub fn byte(&mut self) -> u8 {
        let b = self.data.get(self.pos).copied().unwrap_or(0);
        self.pos += 1;
        b
    }
    /// value in 0..n, monotone in the tape bytes
    pub fn pick(&mut self, n: usize) -> usize {
        if n <= 1 {
            return 0;
        }
        if n <= 256 {
            (self.byte() as usize * n) >> 8
        } else {
            let v = ((self.byte() as usize) << 8) | self.byte() as usize;
            ((v as u64 * n as u64) >> 16) as usize
        }
    }
    pub fn range(&mut self, lo: i64, hi: i64) -> i64 {
        // inclusive
        if hi <= lo {
            return lo;
        }
        lo + self.pick((hi - lo + 1) as usize) as i64
    }
    pub fn flag(&mut self) -> bool {
        self.byte() >= 128
    }
    /// true with probability num/256 (num in 0..=256); exhausted tape => false
    pub fn chance(&mut self, num: u32) -> bool {
        let b = self.byte() as u32;
        b >= 256 - num.min(256)
    }
    /// weighted choice; weight 0 entries are never chosen. Falls back to the first
    /// non-zero entry for an exhausted tape.
    pub fn weighted(&mut self, weights: &[u32]) -> usize {
        let total: u32 = weights.iter().sum();
        if total == 0 {
            return 0;
        }
        let v = if total <= 256 {
            (self.byte() as u32 * total) >> 8
        } else {
            let x = ((self.byte() as u32) << 8) | self.byte() as u32;
            ((x as u64 * total as u64) >> 16) as u32
        };
        let mut acc = 0;
        for (i, w) in weights.iter().enumerate() {
            acc += *w;
            if v < acc {
                return i;
            }
        }
        weights.len() - 1
    }
    pub fn i32_any(&mut self) -> i32 {
        let b = [self.byte(), self.byte(), self.byte(), self.byte()];
        i32::from_le_bytes(b)
    }
    /// integers biased to small values and 32-bit edges
    pub fn i32_edge(&mut self) -> i32 {
        const EDGES: [i32; 24] = [
            0, 1, 2, 3, -1, -2, 5, 7, 10, 100, -3, 255, 256, 65535, 65536, 46340, 46341, -46341,
            i32::MAX, i32::MIN, i32::MAX - 1, i32::MIN + 1, 1 << 30, -(1 << 30),
        ];
        match self.pick(4) {
            0 => self.pick(10) as i32,
            1 => EDGES[self.pick(EDGES.len())],
            2 => self.range(-1000, 1000) as i32,
            _ => self.i32_any(),
        }
    }
}

/// Deterministic 64-bit digest (SipHash-1-3 with fixed keys via DefaultHasher::new()).
pub fn digest(bytes: &[u8]) -> u64 {
    use std::hash::Hasher;
    let mut h = std::collections::hash_map::DefaultHasher::new();
    h.write(bytes);
    h.finish()
}

/// splitmix64, used only to derive per-worker seeds from (seed, property, index)
pub fn mix(mut x: u64) -> u64 {
    x = x.wrapping_add(0x9E37_79B9_7F4A_7C15);
    let mut z = x;
    z = (z ^ (z >> 30)).wrapping_mul(0xBF58_476D_1CE4_E5B9);
    z = (z ^ (z >> 27)).wrapping_mul(0x94D0_49BB_1331_11EB);
    z ^ (z >> 31)
}

pub fn hex(bytes: &[u8]) -> String {
    let mut s = String::with_capacity(bytes.len() * 2);
    for b in bytes {
        s.push_str(&format!("{:02x}", b));
    }
    s
}

pub fn unhex(s: &str) -> Option<Vec<u8>> {
    let s = s.trim();
    if s.len() % 2 != 0 {
        return None;
    }
    let mut out = Vec::with_capacity(s.len() / 2);
    let b = s.as_bytes();
    for i in (0..b.len()).step_by(2) {
        let h = (b[i] as char).to_digit(16)?;
        let l = (b[i + 1] as char).to_digit(16)?;
        out.push((h * 16 + l) as u8);
    }
    Some(out)
}
