//! Independent writer of the documented Feeny/FML layout (little endian).

use super::model::*;

fn u16le(out: &mut Vec<u8>, v: u16) {
    out.extend_from_slice(&v.to_le_bytes());
}
fn u32le(out: &mut Vec<u8>, v: u32) {
    out.extend_from_slice(&v.to_le_bytes());
}

pub fn write_ins(out: &mut Vec<u8>, i: &Ins) {
    out.push(i.opcode());
    match i {
        Ins::Label(a) | Ins::Lit(a) | Ins::Object(a) | Ins::GetSlot(a) | Ins::SetSlot(a) | Ins::SetLocal(a)
        | Ins::GetLocal(a) | Ins::SetGlobal(a) | Ins::GetGlobal(a) | Ins::Branch(a) | Ins::Goto(a) => u16le(out, *a),
        Ins::Print(a, n) | Ins::CallSlot(a, n) | Ins::Call(a, n) => {
            u16le(out, *a);
            out.push(*n);
        }
        Ins::Array | Ins::Return | Ins::Drop => {}
    }
}

pub fn write(m: &Model) -> Vec<u8> {
    let mut out = Vec::new();
    assert!(m.consts.len() <= 0xFFFF);
    u16le(&mut out, m.consts.len() as u16);
    for c in &m.consts {
        match c {
            Const::Int(i) => {
                out.push(0x00);
                out.extend_from_slice(&i.to_le_bytes());
            }
            Const::Null => out.push(0x01),
            Const::Str(s) => {
                out.push(0x02);
                u32le(&mut out, s.as_bytes().len() as u32);
                out.extend_from_slice(s.as_bytes());
            }
            Const::Method { name, nargs, nlocals, code } => {
                out.push(0x03);
                u16le(&mut out, *name);
                out.push(*nargs);
                u16le(&mut out, *nlocals);
                u32le(&mut out, code.len() as u32);
                for i in code {
                    write_ins(&mut out, i);
                }
            }
            Const::Slot(n) => {
                out.push(0x04);
                u16le(&mut out, *n);
            }
            Const::Class(ms) => {
                out.push(0x05);
                u16le(&mut out, ms.len() as u16);
                for x in ms {
                    u16le(&mut out, *x);
                }
            }
            Const::Bool(b) => {
                out.push(0x06);
                out.push(if *b { 1 } else { 0 });
            }
        }
    }
    u16le(&mut out, m.globals.len() as u16);
    for g in &m.globals {
        u16le(&mut out, *g);
    }
    u16le(&mut out, m.entry);
    out
}
