//! Static validator for C02: constant kinds, label discipline, frame sizes and
//! operand-stack balance by abstract interpretation of the depth over each
//! method's control-flow graph.  Demands only what the property statement lists.

use super::model::*;
use std::collections::BTreeMap;

#[derive(Default, Debug, Clone)]
pub struct Report {
    pub methods: usize,
    pub instructions: usize,
    pub labels: usize,
    pub drops: usize,
    pub jumps: usize,
    pub max_depth: i64,
}

fn is_str(m: &Model, i: u16) -> bool {
    matches!(m.consts.get(i as usize), Some(Const::Str(_)))
}

/// `entry_end`: required operand-stack depth where the entry method's code ends
/// without a `return` (None: 0 or 1 accepted).
pub fn validate(m: &Model, entry_end: Option<i64>) -> Result<Report, String> {
    let mut rep = Report::default();
    // ---- constants
    for (i, c) in m.consts.iter().enumerate() {
        match c {
            Const::Slot(n) => {
                if !is_str(m, *n) {
                    return Err(format!("constant #{}: slot name #{} is not a string", i, n));
                }
            }
            Const::Method { name, .. } => {
                if !is_str(m, *name) {
                    return Err(format!("constant #{}: method name #{} is not a string", i, name));
                }
            }
            Const::Class(ms) => {
                for x in ms {
                    match m.consts.get(*x as usize) {
                        Some(Const::Slot(_)) | Some(Const::Method { .. }) => {}
                        other => return Err(format!("constant #{}: class member #{} is {:?}, not a slot or method", i, x, other.map(kind))),
                    }
                }
            }
            _ => {}
        }
    }
    for g in &m.globals {
        match m.consts.get(*g as usize) {
            Some(Const::Slot(_)) | Some(Const::Method { .. }) => {}
            other => return Err(format!("global #{} is {:?}, not a slot or method", g, other.map(kind))),
        }
    }
    match m.consts.get(m.entry as usize) {
        Some(Const::Method { .. }) => {}
        other => return Err(format!("entry #{} is {:?}, not a method", m.entry, other.map(kind))),
    }

    // ---- labels: each name defined exactly once program-wide
    let mut label_home: BTreeMap<String, (usize, usize)> = BTreeMap::new();
    for (ci, c) in m.consts.iter().enumerate() {
        if let Const::Method { code, .. } = c {
            for (pc, ins) in code.iter().enumerate() {
                if let Ins::Label(n) = ins {
                    let name = match m.str_at(*n) {
                        Some(s) => s.to_string(),
                        None => return Err(format!("method #{} @{}: label name #{} is not a string", ci, pc, n)),
                    };
                    if let Some((oc, op)) = label_home.insert(name.clone(), (ci, pc)) {
                        return Err(format!("label `{}` defined twice: method #{} @{} and method #{} @{}", name, oc, op, ci, pc));
                    }
                    rep.labels += 1;
                }
            }
        }
    }

    // ---- per method
    for (ci, c) in m.consts.iter().enumerate() {
        if let Const::Method { nargs, nlocals, code, .. } = c {
            rep.methods += 1;
            rep.instructions += code.len();
            let frame = *nargs as usize + *nlocals as usize;
            let is_entry = ci == m.entry as usize;
            // reference kinds
            for (pc, ins) in code.iter().enumerate() {
                let at = |what: &str| format!("method #{} @{} ({:?}): {}", ci, pc, ins, what);
                match ins {
                    Ins::Lit(i) => match m.consts.get(*i as usize) {
                        Some(Const::Int(_)) | Some(Const::Null) | Some(Const::Bool(_)) => {}
                        other => return Err(at(&format!("literal refers to {:?}", other.map(kind)))),
                    },
                    Ins::Print(f, _) => {
                        if !is_str(m, *f) {
                            return Err(at("format is not a string"));
                        }
                    }
                    Ins::Object(c) => match m.consts.get(*c as usize) {
                        Some(Const::Class(_)) => {}
                        other => return Err(at(&format!("object refers to {:?}", other.map(kind)))),
                    },
                    Ins::GetSlot(n) | Ins::SetSlot(n) | Ins::CallSlot(n, _) | Ins::Call(n, _) | Ins::SetGlobal(n)
                    | Ins::GetGlobal(n) | Ins::Label(n) => {
                        if !is_str(m, *n) {
                            return Err(at("name is not a string"));
                        }
                    }
                    Ins::Branch(n) | Ins::Goto(n) => {
                        rep.jumps += 1;
                        let name = match m.str_at(*n) {
                            Some(s) => s,
                            None => return Err(at("label name is not a string")),
                        };
                        match label_home.get(name) {
                            None => return Err(at(&format!("jump to undefined label `{}`", name))),
                            Some((home, _)) if *home != ci => {
                                return Err(at(&format!("jump to label `{}` defined in another method (#{})", name, home)))
                            }
                            _ => {}
                        }
                    }
                    Ins::SetLocal(i) | Ins::GetLocal(i) => {
                        if *i as usize >= frame {
                            return Err(at(&format!("local index {} outside the frame of {} slots", i, frame)));
                        }
                    }
                    Ins::Drop => rep.drops += 1,
                    Ins::Array | Ins::Return => {}
                }
                if let Ins::CallSlot(_, k) = ins {
                    if *k == 0 {
                        return Err(at("method call without receiver (arity 0)"));
                    }
                }
            }
            // stack depth over the CFG
            let n = code.len();
            let mut depth: Vec<Option<i64>> = vec![None; n + 1];
            let mut work: Vec<usize> = vec![];
            depth[0] = Some(0);
            work.push(0);
            while let Some(pc) = work.pop() {
                let d = depth[pc].unwrap();
                if pc == n {
                    continue;
                }
                let ins = &code[pc];
                let at = |what: String| format!("method #{} @{} ({:?}): {}", ci, pc, ins, what);
                let (pops, pushes, needs): (i64, i64, i64) = match ins {
                    Ins::Label(_) | Ins::Goto(_) => (0, 0, 0),
                    Ins::Lit(_) | Ins::GetLocal(_) | Ins::GetGlobal(_) => (0, 1, 0),
                    Ins::Print(_, k) => (*k as i64, 1, *k as i64),
                    Ins::Array => (2, 1, 2),
                    Ins::Object(c) => {
                        let slots = match m.consts.get(*c as usize) {
                            Some(Const::Class(ms)) => {
                                ms.iter().filter(|x| matches!(m.consts.get(**x as usize), Some(Const::Slot(_)))).count() as i64
                            }
                            _ => 0,
                        };
                        (slots + 1, 1, slots + 1)
                    }
                    Ins::GetSlot(_) => (1, 1, 1),
                    Ins::SetSlot(_) => (2, 1, 2),
                    Ins::CallSlot(_, k) | Ins::Call(_, k) => (*k as i64, 1, *k as i64),
                    Ins::SetLocal(_) | Ins::SetGlobal(_) => (0, 0, 1),
                    Ins::Branch(_) | Ins::Drop => (1, 0, 1),
                    Ins::Return => (0, 0, 0),
                };
                if d < needs {
                    return Err(at(format!("needs {} operand(s), depth is {}", needs, d)));
                }
                if let Ins::Return = ins {
                    if d != 1 {
                        return Err(at(format!("operand-stack depth at return is {}, not 1", d)));
                    }
                    continue;
                }
                let nd = d - pops + pushes;
                rep.max_depth = rep.max_depth.max(nd);
                let mut succ: Vec<usize> = vec![];
                match ins {
                    Ins::Goto(l) => succ.push(label_home[m.str_at(*l).unwrap()].1),
                    Ins::Branch(l) => {
                        succ.push(label_home[m.str_at(*l).unwrap()].1);
                        succ.push(pc + 1);
                    }
                    _ => succ.push(pc + 1),
                }
                for s in succ {
                    match depth[s] {
                        None => {
                            depth[s] = Some(nd);
                            work.push(s);
                        }
                        Some(old) if old != nd => {
                            return Err(format!(
                                "method #{}: operand-stack depth at @{} depends on the path ({} vs {} coming from @{})",
                                ci, s, old, nd, pc
                            ))
                        }
                        _ => {}
                    }
                }
            }
            if let Some(d) = depth[n] {
                if !is_entry {
                    return Err(format!("method #{}: execution can fall off the end of the method (depth {})", ci, d));
                }
                let ok = match entry_end {
                    Some(want) => d == want,
                    None => d == 0 || d == 1,
                };
                if !ok {
                    return Err(format!("entry method #{}: operand-stack depth at the end is {} (expected {:?})", ci, d, entry_end));
                }
            }
        }
    }
    Ok(rep)
}

pub fn kind(c: &Const) -> &'static str {
    match c {
        Const::Int(_) => "int",
        Const::Null => "null",
        Const::Str(_) => "string",
        Const::Method { .. } => "method",
        Const::Slot(_) => "slot",
        Const::Class(_) => "class",
        Const::Bool(_) => "bool",
    }
}

/// "every instruction belongs to exactly one method": method ranges partition
/// the code vector without gap or overlap.
pub fn check_partition(ranges: &[(usize, usize, usize)], code_len: usize) -> Result<(), String> {
    let mut r: Vec<(usize, usize, usize)> = ranges.to_vec();
    r.sort_by_key(|x| (x.1, x.2));
    let mut at = 0usize;
    for (ci, start, len) in r {
        if start < at {
            return Err(format!("method #{} (code {}..{}) overlaps the previous method", ci, start, start + len));
        }
        if start > at {
            return Err(format!("instructions {}..{} belong to no method", at, start));
        }
        at = start + len;
    }
    if at != code_len {
        return Err(format!("instructions {}..{} belong to no method", at, code_len));
    }
    Ok(())
}
