//! Independent strict reader of the documented layout: bad tag, bad bool byte,
//! invalid UTF-8, short input and trailing bytes are all errors.

use super::model::*;

pub struct Rd<'a> {
    b: &'a [u8],
    pos: usize,
}

impl<'a> Rd<'a> {
    fn need(&self, n: usize) -> Result<(), String> {
        if self.pos + n > self.b.len() {
            Err(format!("short input at offset {} (need {} more bytes)", self.pos, n))
        } else {
            Ok(())
        }
    }
    fn u8(&mut self) -> Result<u8, String> {
        self.need(1)?;
        let v = self.b[self.pos];
        self.pos += 1;
        Ok(v)
    }
    fn u16(&mut self) -> Result<u16, String> {
        self.need(2)?;
        let v = u16::from_le_bytes([self.b[self.pos], self.b[self.pos + 1]]);
        self.pos += 2;
        Ok(v)
    }
    fn u32(&mut self) -> Result<u32, String> {
        self.need(4)?;
        let v = u32::from_le_bytes([self.b[self.pos], self.b[self.pos + 1], self.b[self.pos + 2], self.b[self.pos + 3]]);
        self.pos += 4;
        Ok(v)
    }
    fn ins(&mut self) -> Result<Ins, String> {
        let op = self.u8()?;
        Ok(match op {
            0x00 => Ins::Label(self.u16()?),
            0x01 => Ins::Lit(self.u16()?),
            0x02 => {
                let a = self.u16()?;
                Ins::Print(a, self.u8()?)
            }
            0x03 => Ins::Array,
            0x04 => Ins::Object(self.u16()?),
            0x05 => Ins::GetSlot(self.u16()?),
            0x06 => Ins::SetSlot(self.u16()?),
            0x07 => {
                let a = self.u16()?;
                Ins::CallSlot(a, self.u8()?)
            }
            0x08 => {
                let a = self.u16()?;
                Ins::Call(a, self.u8()?)
            }
            0x09 => Ins::SetLocal(self.u16()?),
            0x0A => Ins::GetLocal(self.u16()?),
            0x0B => Ins::SetGlobal(self.u16()?),
            0x0C => Ins::GetGlobal(self.u16()?),
            0x0D => Ins::Branch(self.u16()?),
            0x0E => Ins::Goto(self.u16()?),
            0x0F => Ins::Return,
            0x10 => Ins::Drop,
            other => return Err(format!("unknown opcode 0x{:02x} at offset {}", other, self.pos - 1)),
        })
    }
}

pub fn read(bytes: &[u8]) -> Result<Model, String> {
    let mut r = Rd { b: bytes, pos: 0 };
    let n = r.u16()? as usize;
    let mut consts = Vec::with_capacity(n);
    for _ in 0..n {
        let tag = r.u8()?;
        consts.push(match tag {
            0x00 => {
                r.need(4)?;
                let v = i32::from_le_bytes([r.b[r.pos], r.b[r.pos + 1], r.b[r.pos + 2], r.b[r.pos + 3]]);
                r.pos += 4;
                Const::Int(v)
            }
            0x01 => Const::Null,
            0x02 => {
                let len = r.u32()? as usize;
                r.need(len)?;
                let s = std::str::from_utf8(&r.b[r.pos..r.pos + len]).map_err(|e| format!("invalid UTF-8 in string constant: {}", e))?;
                r.pos += len;
                Const::Str(s.to_string())
            }
            0x03 => {
                let name = r.u16()?;
                let nargs = r.u8()?;
                let nlocals = r.u16()?;
                let len = r.u32()? as usize;
                if len > bytes.len() {
                    return Err("instruction count exceeds file size".into());
                }
                let mut code = Vec::with_capacity(len);
                for _ in 0..len {
                    code.push(r.ins()?);
                }
                Const::Method { name, nargs, nlocals, code }
            }
            0x04 => Const::Slot(r.u16()?),
            0x05 => {
                let k = r.u16()? as usize;
                let mut v = Vec::with_capacity(k);
                for _ in 0..k {
                    v.push(r.u16()?);
                }
                Const::Class(v)
            }
            0x06 => match r.u8()? {
                0 => Const::Bool(false),
                1 => Const::Bool(true),
                x => return Err(format!("bad boolean byte {}", x)),
            },
            other => return Err(format!("unknown constant tag 0x{:02x} at offset {}", other, r.pos - 1)),
        });
    }
    let g = r.u16()? as usize;
    let mut globals = Vec::with_capacity(g);
    for _ in 0..g {
        globals.push(r.u16()?);
    }
    let entry = r.u16()?;
    if r.pos != bytes.len() {
        return Err(format!("{} trailing bytes after the entry index", bytes.len() - r.pos));
    }
    Ok(Model { consts, globals, entry })
}
