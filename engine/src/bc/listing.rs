//! Parser for the text printed by `fml disassemble` (DESIGN Appendix B):
//! reads the listing back into the independent model.

use super::model::*;

fn cpi(s: &str) -> Result<u16, String> {
    s.strip_prefix('#').ok_or_else(|| format!("expected #N, found `{}`", s))?.parse::<u16>().map_err(|e| format!("bad index `{}`: {}", s, e))
}

fn lfi(s: &str) -> Result<u16, String> {
    s.strip_prefix("::").ok_or_else(|| format!("expected ::N, found `{}`", s))?.parse::<u16>().map_err(|e| format!("bad local `{}`: {}", s, e))
}

fn split_index(line: &str) -> Result<(usize, &str), String> {
    // indentation before the index is layout, not content (what follows `N: ` is kept verbatim)
    let line = line.trim_start_matches(|c| c == ' ' || c == '\t');
    let p = line.find(": ").or_else(|| if line.ends_with(':') { Some(line.len() - 1) } else { None }).ok_or_else(|| format!("no `N: ` prefix in `{}`", line))?;
    let idx = line[..p].parse::<usize>().map_err(|_| format!("bad index in `{}`", line))?;
    let rest = if p + 2 <= line.len() { &line[p + 2..] } else { "" };
    Ok((idx, rest))
}

enum RawConst {
    Plain(Const),
    Method { name: u16, nargs: u8, nlocals: u16, start: usize, end: Option<usize> },
}

fn parse_value(v: &str) -> Result<RawConst, String> {
    if v.starts_with('"') {
        let last = v.rfind('"').unwrap();
        if last == 0 {
            return Err(format!("unterminated string `{}`", v));
        }
        if last != v.len() - 1 {
            return Err(format!("text after closing quote in `{}`", v));
        }
        return Ok(RawConst::Plain(Const::Str(v[1..last].to_string())));
    }
    if let Some(r) = v.strip_prefix("slot ") {
        return Ok(RawConst::Plain(Const::Slot(cpi(r)?)));
    }
    if v == "class" || v.starts_with("class ") {
        let r = v.strip_prefix("class").unwrap().trim_start_matches(' ');
        if r.is_empty() {
            return Ok(RawConst::Plain(Const::Class(vec![])));
        }
        let mut ms = vec![];
        for part in r.split(',') {
            ms.push(cpi(part)?);
        }
        return Ok(RawConst::Plain(Const::Class(ms)));
    }
    if let Some(r) = v.strip_prefix("method ") {
        let parts: Vec<&str> = r.split(' ').collect();
        if parts.len() != 4 {
            return Err(format!("method line has {} fields: `{}`", parts.len(), v));
        }
        let name = cpi(parts[0])?;
        let nargs = parts[1].strip_prefix("args:").ok_or("missing args:")?.parse::<u8>().map_err(|e| e.to_string())?;
        let nlocals = parts[2].strip_prefix("locals:").ok_or("missing locals:")?.parse::<u16>().map_err(|e| e.to_string())?;
        let (s, e) = parts[3].split_once('-').ok_or_else(|| format!("bad range `{}`", parts[3]))?;
        let start = s.parse::<usize>().map_err(|e| e.to_string())?;
        let end = if e == "∅" { None } else { Some(e.parse::<usize>().map_err(|e| e.to_string())?) };
        return Ok(RawConst::Method { name, nargs, nlocals, start, end });
    }
    match v {
        "true" => return Ok(RawConst::Plain(Const::Bool(true))),
        "false" => return Ok(RawConst::Plain(Const::Bool(false))),
        "null" => return Ok(RawConst::Plain(Const::Null)),
        _ => {}
    }
    v.parse::<i32>().map(|i| RawConst::Plain(Const::Int(i))).map_err(|_| format!("unrecognised constant `{}`", v))
}

fn parse_op(s: &str) -> Result<Ins, String> {
    let w: Vec<&str> = s.split(' ').collect();
    let n = |i: usize| -> Result<&str, String> { w.get(i).copied().ok_or_else(|| format!("missing operand in `{}`", s)) };
    let arity = |i: usize| -> Result<u8, String> { n(i)?.parse::<u8>().map_err(|e| format!("bad arity in `{}`: {}", s, e)) };
    let exact = |k: usize| -> Result<(), String> {
        if w.len() == k {
            Ok(())
        } else {
            Err(format!("unexpected operand count in `{}`", s))
        }
    };
    Ok(match (w[0], w.get(1).copied()) {
        ("lit", _) => {
            exact(2)?;
            Ins::Lit(cpi(n(1)?)?)
        }
        ("get", Some("local")) => {
            exact(3)?;
            Ins::GetLocal(lfi(n(2)?)?)
        }
        ("set", Some("local")) => {
            exact(3)?;
            Ins::SetLocal(lfi(n(2)?)?)
        }
        ("get", Some("global")) => {
            exact(3)?;
            Ins::GetGlobal(cpi(n(2)?)?)
        }
        ("set", Some("global")) => {
            exact(3)?;
            Ins::SetGlobal(cpi(n(2)?)?)
        }
        ("get", Some("slot")) => {
            exact(3)?;
            Ins::GetSlot(cpi(n(2)?)?)
        }
        ("set", Some("slot")) => {
            exact(3)?;
            Ins::SetSlot(cpi(n(2)?)?)
        }
        ("object", _) => {
            exact(2)?;
            Ins::Object(cpi(n(1)?)?)
        }
        ("array", None) => Ins::Array,
        ("call", Some("slot")) => {
            exact(4)?;
            Ins::CallSlot(cpi(n(2)?)?, arity(3)?)
        }
        ("call", _) => {
            exact(3)?;
            Ins::Call(cpi(n(1)?)?, arity(2)?)
        }
        ("printf", _) => {
            exact(3)?;
            Ins::Print(cpi(n(1)?)?, arity(2)?)
        }
        ("label", _) => {
            exact(2)?;
            Ins::Label(cpi(n(1)?)?)
        }
        ("goto", _) => {
            exact(2)?;
            Ins::Goto(cpi(n(1)?)?)
        }
        ("branch", _) => {
            exact(2)?;
            Ins::Branch(cpi(n(1)?)?)
        }
        ("return", None) => Ins::Return,
        ("drop", None) => Ins::Drop,
        _ => return Err(format!("unknown mnemonic in `{}`", s)),
    })
}

/// Undo Rust-debug style escaping of a listed string (`\"`, `\\`, `\n`, `\r`, `\t`, `\0`,
/// `\'`, `\u{..}`); None if the text is not a well-formed escaped string.
fn unescape(s: &str) -> Option<String> {
    let mut out = String::new();
    let mut it = s.chars();
    while let Some(c) = it.next() {
        if c != '\\' {
            if c == '"' {
                return None; // a bare quote inside an escaped string
            }
            out.push(c);
            continue;
        }
        match it.next()? {
            '"' => out.push('"'),
            '\\' => out.push('\\'),
            'n' => out.push('\n'),
            'r' => out.push('\r'),
            't' => out.push('\t'),
            '0' => out.push('\0'),
            '\'' => out.push('\''),
            'u' => {
                if it.next()? != '{' {
                    return None;
                }
                let mut hex = String::new();
                loop {
                    let h = it.next()?;
                    if h == '}' {
                        break;
                    }
                    hex.push(h);
                }
                out.push(char::from_u32(u32::from_str_radix(&hex, 16).ok()?)?);
            }
            _ => return None,
        }
    }
    Some(out)
}

/// The same listing read under the other convention a faithful listing may follow: string
/// constants written with their special characters escaped (and unescaped here).  A listing
/// that escapes completely reads back to the file's strings this way; one that escapes only
/// some characters reads back to the file's strings under neither convention.
pub fn parse_escaped(text: &str) -> Result<Model, String> {
    let mut m = parse(text)?;
    for c in m.consts.iter_mut() {
        if let Const::Str(s) = c {
            *s = unescape(s).ok_or_else(|| format!("string `{}` is not a well-formed escaped string", s))?;
        }
    }
    Ok(m)
}

/// Parse a listing. Every `Code` line must belong to exactly one method.
pub fn parse(text: &str) -> Result<Model, String> {
    // blank lines and trailing blanks after a section header are layout as well; a constant's
    // line is never blank (it starts with its index) and the listed strings hold no raw LF
    let mut lines = text.split('\n').filter(|l| !l.trim().is_empty()).peekable();
    if lines.next().map(|l| l.trim_end()) != Some("Constant Pool:") {
        return Err("listing does not start with `Constant Pool:`".into());
    }
    let mut raw: Vec<RawConst> = vec![];
    let entry;
    loop {
        let line = lines.next().ok_or("listing ends inside the constant pool")?;
        if let Some(e) = line.strip_prefix("Entry: ") {
            entry = cpi(e.trim_end())?;
            break;
        }
        let (idx, rest) = split_index(line)?;
        if idx != raw.len() {
            return Err(format!("constant index {} where {} was expected", idx, raw.len()));
        }
        raw.push(parse_value(rest).map_err(|e| format!("constant #{}: {}", idx, e))?);
    }
    if lines.next().map(|l| l.trim_end()) != Some("Globals:") {
        return Err("missing `Globals:`".into());
    }
    let mut globals = vec![];
    loop {
        let line = lines.next().ok_or("listing ends inside the globals")?;
        if line.trim_end() == "Code:" {
            break;
        }
        let (idx, rest) = split_index(line)?;
        if idx != globals.len() {
            return Err(format!("global index {} where {} was expected", idx, globals.len()));
        }
        globals.push(cpi(rest)?);
    }
    let mut code: Vec<Ins> = vec![];
    for line in lines {
        if line.is_empty() {
            continue;
        }
        let (idx, rest) = split_index(line)?;
        if idx != code.len() {
            return Err(format!("code address {} where {} was expected", idx, code.len()));
        }
        code.push(parse_op(rest).map_err(|e| format!("code @{}: {}", idx, e))?);
    }
    // methods take their instructions from Code[start ..= end]
    let mut owner: Vec<Option<usize>> = vec![None; code.len()];
    let mut consts = vec![];
    for (i, r) in raw.into_iter().enumerate() {
        consts.push(match r {
            RawConst::Plain(c) => c,
            RawConst::Method { name, nargs, nlocals, start, end } => {
                let body = match end {
                    None => vec![],
                    Some(e) => {
                        if e < start || e >= code.len() {
                            return Err(format!("method #{}: range {}-{} outside the code listing of {} lines", i, start, e, code.len()));
                        }
                        for a in start..=e {
                            if let Some(o) = owner[a] {
                                return Err(format!("code @{} belongs to methods #{} and #{}", a, o, i));
                            }
                            owner[a] = Some(i);
                        }
                        code[start..=e].to_vec()
                    }
                };
                Const::Method { name, nargs, nlocals, code: body }
            }
        });
    }
    if let Some(a) = owner.iter().position(|o| o.is_none()) {
        return Err(format!("code @{} belongs to no method", a));
    }
    Ok(Model { consts, globals, entry })
}
