//! Independent model of a bytecode file, written from the documented layout
//! (C04) and the per-opcode documentation: methods embed their instructions,
//! as in the file.

use serde::{Deserialize, Serialize};

#[derive(Clone, Debug, PartialEq, Eq, Hash, Serialize, Deserialize)]
pub enum Ins {
    Label(u16),
    Lit(u16),
    Print(u16, u8),
    Array,
    Object(u16),
    GetSlot(u16),
    SetSlot(u16),
    CallSlot(u16, u8),
    Call(u16, u8),
    SetLocal(u16),
    GetLocal(u16),
    SetGlobal(u16),
    GetGlobal(u16),
    Branch(u16),
    Goto(u16),
    Return,
    Drop,
}

impl Ins {
    pub fn opcode(&self) -> u8 {
        match self {
            Ins::Label(_) => 0x00,
            Ins::Lit(_) => 0x01,
            Ins::Print(..) => 0x02,
            Ins::Array => 0x03,
            Ins::Object(_) => 0x04,
            Ins::GetSlot(_) => 0x05,
            Ins::SetSlot(_) => 0x06,
            Ins::CallSlot(..) => 0x07,
            Ins::Call(..) => 0x08,
            Ins::SetLocal(_) => 0x09,
            Ins::GetLocal(_) => 0x0A,
            Ins::SetGlobal(_) => 0x0B,
            Ins::GetGlobal(_) => 0x0C,
            Ins::Branch(_) => 0x0D,
            Ins::Goto(_) => 0x0E,
            Ins::Return => 0x0F,
            Ins::Drop => 0x10,
        }
    }
}

#[derive(Clone, Debug, PartialEq, Eq, Hash, Serialize, Deserialize)]
pub enum Const {
    Int(i32),
    Null,
    Str(String),
    Method { name: u16, nargs: u8, nlocals: u16, code: Vec<Ins> },
    Slot(u16),
    Class(Vec<u16>),
    Bool(bool),
}

#[derive(Clone, Debug, PartialEq, Eq, Hash, Serialize, Deserialize)]
pub struct Model {
    pub consts: Vec<Const>,
    pub globals: Vec<u16>,
    pub entry: u16,
}

impl Model {
    pub fn str_at(&self, i: u16) -> Option<&str> {
        match self.consts.get(i as usize) {
            Some(Const::Str(s)) => Some(s),
            _ => None,
        }
    }
    pub fn methods(&self) -> Vec<(usize, &Const)> {
        self.consts.iter().enumerate().filter(|(_, c)| matches!(c, Const::Method { .. })).collect()
    }
    pub fn total_instructions(&self) -> usize {
        self.consts
            .iter()
            .map(|c| match c {
                Const::Method { code, .. } => code.len(),
                _ => 0,
            })
            .sum()
    }
}
