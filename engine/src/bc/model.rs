//! Independent model of a bytecode file, written from the documented layout
//! (C04) and the per-opcode documentation: methods embed their instructions,
//! as in the file.

use serde::{Deserialize, Serialize};

#[derive(Clone, Debug, PartialEq, Eq, Hash, Serialize, Deserialize)]
pub enum Ins {
    Label(u16),
    Lit(u16),
    Print(u16, u8),
    Array,
    Object(u16),
    GetSlot(u16),
    SetSlot(u16),
    CallSlot(u16, u8),
    Call(u16, u8),
    SetLocal(u16),
    GetLocal(u16),
    SetGlobal(u16),
    GetGlobal(u16),
    Branch(u16),
    Goto(u16),
    Return,
    Drop,
}

impl Ins {
    pub fn opcode(&self) -> u8 {
        match self {
            Ins::Label(_) => 0x00,
            Ins::Lit(_) => 0x01,
            Ins::Print(..) => 0x02,
            Ins::Array => 0x03,
            Ins::Object(_) => 0x04,
            Ins::GetSlot(_) => 0x05,
            Ins::SetSlot(_) => 0x06,
            Ins::CallSlot(..) => 0x07,
            Ins::Call(..) => 0x08,
            Ins::SetLocal(_) => 0x09,
            Ins::GetLocal(_) => 0x0A,
            Ins::SetGlobal(_) => 0x0B,
            Ins::GetGlobal(_) => 0x0C,
            Ins::Branch(_) => 0x0D,
            Ins::Goto(_) => 0x0E,
            Ins::Return => 0x0F,
            Ins::Drop => 0x10,
        }
    }
}

#[derive(Clone, Debug, PartialEq, Eq, Hash, Serialize, Deserialize)]
pub enum Const {
    Int(i32),
    Null,
    Str(String),
    Method { name: u16, nargs: u8, nlocals: u16, code: Vec<Ins> },
    Slot(u16),
    Class(Vec<u16>),
    Bool(bool),
}

#[derive(Clone, Debug, PartialEq, Eq, Hash, Serialize, Deserialize)]
pub struct Model {
    pub consts: Vec<Const>,
    pub globals: Vec<u16>,
    pub entry: u16,
}

impl Model {
    pub fn str_at(&self, i: u16) -> Option<&str> {
        match self.consts.get(i as usize) {
            Some(Const::Str(s)) => Some(s),
            _ => None,
        }
    }
    pub fn methods(&self) -> Vec<(usize, &Const)> {
        self.consts.iter().enumerate().filter(|(_, c)| matches!(c, Const::Method { .. })).collect()
    }
    pub fn total_instructions(&self) -> usize {
        self.consts
            .iter()
            .map(|c| match c {
                Const::Method { code, .. } => code.len(),
                _ => 0,
            })
            .sum()
    }
}

impl Model {
    /// The same program with constant `from` moved to position `to` (all references renumbered).
    /// Method constants keep their relative order except for the moved one, so the caller must
    /// make sure the layout stays meaningful (an entry method that is no longer last must end
    /// in `return`).
    pub fn with_const_moved(&self, from: usize, to: usize) -> Model {
        let n = self.consts.len();
        if from >= n || to >= n || from == to {
            return self.clone();
        }
        // new order of old indices
        let mut order: Vec<usize> = (0..n).collect();
        let x = order.remove(from);
        order.insert(to, x);
        let mut new_of_old = vec![0u16; n];
        for (new, old) in order.iter().enumerate() {
            new_of_old[*old] = new as u16;
        }
        let m = |i: u16| -> u16 { new_of_old.get(i as usize).copied().unwrap_or(i) };
        let ins = |i: &Ins| -> Ins {
            match i {
                Ins::Label(a) => Ins::Label(m(*a)),
                Ins::Lit(a) => Ins::Lit(m(*a)),
                Ins::Print(a, k) => Ins::Print(m(*a), *k),
                Ins::Object(a) => Ins::Object(m(*a)),
                Ins::GetSlot(a) => Ins::GetSlot(m(*a)),
                Ins::SetSlot(a) => Ins::SetSlot(m(*a)),
                Ins::CallSlot(a, k) => Ins::CallSlot(m(*a), *k),
                Ins::Call(a, k) => Ins::Call(m(*a), *k),
                Ins::SetGlobal(a) => Ins::SetGlobal(m(*a)),
                Ins::GetGlobal(a) => Ins::GetGlobal(m(*a)),
                Ins::Branch(a) => Ins::Branch(m(*a)),
                Ins::Goto(a) => Ins::Goto(m(*a)),
                other => other.clone(),
            }
        };
        let consts = order
            .iter()
            .map(|old| match &self.consts[*old] {
                Const::Slot(a) => Const::Slot(m(*a)),
                Const::Class(ms) => Const::Class(ms.iter().map(|a| m(*a)).collect()),
                Const::Method { name, nargs, nlocals, code } => Const::Method { name: m(*name), nargs: *nargs, nlocals: *nlocals, code: code.iter().map(&ins).collect() },
                other => other.clone(),
            })
            .collect();
        Model { consts, globals: self.globals.iter().map(|a| m(*a)).collect(), entry: m(self.entry) }
    }
}

