pub mod listing;
pub mod model;
pub mod project;
pub mod reader;
pub mod validate;
pub mod writer;
