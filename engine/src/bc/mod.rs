pub mod compile;
pub mod listing;
pub mod machine;
pub mod model;
pub mod project;
pub mod reader;
pub mod validate;
pub mod writer;
