//! Abstract machine for the documented instruction set (DESIGN Appendix A):
//! the oracle of C05.  Addresses are (method constant, offset) pairs; there is
//! no global code vector, so nothing depends on a memory layout.

use super::model::*;
use crate::refsem::{builtin, format_print, V};
use std::collections::BTreeMap;

#[derive(Clone, Debug, PartialEq, Eq)]
pub enum MOutcome {
    Ok,
    Fail(String),
    Fuel,
    /// the program left the defined instruction semantics (fell off a non-entry
    /// method, ...): generators must not produce such programs
    Undefined(String),
}

enum HObj {
    Array(Vec<V>),
    Object { parent: V, fields: Vec<(String, V)>, methods: Vec<(String, u16)> },
}

struct Frame {
    ret: Option<(u16, usize)>,
    locals: Vec<V>,
}

pub struct MResult {
    pub out: String,
    pub outcome: MOutcome,
    pub steps: u64,
    pub calls: u64,
    pub labels_passed: u64,
    pub allocs: u64,
}

pub fn run(m: &Model, fuel: u64) -> MResult {
    let mut mach = Machine {
        m,
        out: String::new(),
        stack: vec![],
        frames: vec![],
        globals: BTreeMap::new(),
        funs: BTreeMap::new(),
        labels: BTreeMap::new(),
        heap: vec![],
        steps: 0,
        calls: 0,
        labels_passed: 0,
    };
    let outcome = match mach.exec(fuel) {
        Ok(()) => MOutcome::Ok,
        Err(o) => o,
    };
    MResult { out: mach.out, outcome, steps: mach.steps, calls: mach.calls, labels_passed: mach.labels_passed, allocs: mach.heap.len() as u64 }
}

struct Machine<'a> {
    m: &'a Model,
    out: String,
    stack: Vec<V>,
    frames: Vec<Frame>,
    globals: BTreeMap<String, V>,
    funs: BTreeMap<String, u16>,
    labels: BTreeMap<String, (u16, usize)>,
    heap: Vec<HObj>,
    steps: u64,
    calls: u64,
    labels_passed: u64,
}

type Step<T> = Result<T, MOutcome>;

fn fail<T>(s: impl Into<String>) -> Step<T> {
    Err(MOutcome::Fail(s.into()))
}

impl<'a> Machine<'a> {
    fn string(&self, i: u16) -> Step<&'a str> {
        match self.m.consts.get(i as usize) {
            Some(Const::Str(s)) => Ok(s.as_str()),
            _ => fail(format!("constant #{} is not a string", i)),
        }
    }
    fn method(&self, i: u16) -> Step<(u8, u16, &'a Vec<Ins>)> {
        match self.m.consts.get(i as usize) {
            Some(Const::Method { nargs, nlocals, code, .. }) => Ok((*nargs, *nlocals, code)),
            _ => fail(format!("constant #{} is not a method", i)),
        }
    }
    fn pop(&mut self) -> Step<V> {
        match self.stack.pop() {
            Some(v) => Ok(v),
            None => fail("pop from an empty operand stack"),
        }
    }
    fn popn(&mut self, n: usize) -> Step<Vec<V>> {
        if self.stack.len() < n {
            return fail("operand stack too shallow");
        }
        let at = self.stack.len() - n;
        Ok(self.stack.split_off(at))
    }

    fn exec(&mut self, fuel: u64) -> Step<()> {
        let m = self.m;
        // load-time: globals pre-created as null, functions by name, labels by name
        for g in &m.globals {
            match m.consts.get(*g as usize) {
                Some(Const::Slot(n)) => {
                    let name = self.string(*n)?.to_string();
                    if self.globals.insert(name, V::Null).is_some() {
                        return fail("duplicate global");
                    }
                }
                Some(Const::Method { name, .. }) => {
                    let name = self.string(*name)?.to_string();
                    if self.funs.insert(name, *g).is_some() {
                        return fail("duplicate function");
                    }
                }
                _ => return fail("global is neither slot nor method"),
            }
        }
        for (ci, c) in m.consts.iter().enumerate() {
            if let Const::Method { code, .. } = c {
                for (pc, i) in code.iter().enumerate() {
                    if let Ins::Label(n) = i {
                        let name = self.string(*n)?.to_string();
                        self.labels.insert(name, (ci as u16, pc));
                    }
                }
            }
        }
        let entry = m.entry;
        let (_, nlocals, _) = self.method(entry)?;
        self.frames.push(Frame { ret: None, locals: vec![V::Null; nlocals as usize] });
        let mut cur: (u16, usize) = (entry, 0);
        loop {
            let (_, _, code) = self.method(cur.0)?;
            if cur.1 >= code.len() {
                if cur.0 == entry && self.frames.len() == 1 {
                    return Ok(()); // the entry method's code ends: halt
                }
                return Err(MOutcome::Undefined(format!("execution fell off the end of method #{}", cur.0)));
            }
            if self.steps >= fuel {
                return Err(MOutcome::Fuel);
            }
            self.steps += 1;
            let ins = &code[cur.1];
            let mut next = (cur.0, cur.1 + 1);
            match ins {
                Ins::Lit(i) => match m.consts.get(*i as usize) {
                    Some(Const::Int(v)) => self.stack.push(V::Int(*v)),
                    Some(Const::Bool(b)) => self.stack.push(V::Bool(*b)),
                    Some(Const::Null) => self.stack.push(V::Null),
                    _ => return fail("literal is not int/bool/null"),
                },
                Ins::GetLocal(i) => {
                    let f = self.frames.last().unwrap();
                    match f.locals.get(*i as usize) {
                        Some(v) => self.stack.push(*v),
                        None => return fail("local index outside the frame"),
                    }
                }
                Ins::SetLocal(i) => {
                    let v = match self.stack.last() {
                        Some(v) => *v,
                        None => return fail("set local on an empty operand stack"),
                    };
                    let f = self.frames.last_mut().unwrap();
                    match f.locals.get_mut(*i as usize) {
                        Some(slot) => *slot = v,
                        None => return fail("local index outside the frame"),
                    }
                }
                Ins::GetGlobal(n) => {
                    let name = self.string(*n)?;
                    match self.globals.get(name) {
                        Some(v) => self.stack.push(*v),
                        None => return fail(format!("no such global {}", name)),
                    }
                }
                Ins::SetGlobal(n) => {
                    let name = self.string(*n)?;
                    let v = match self.stack.last() {
                        Some(v) => *v,
                        None => return fail("set global on an empty operand stack"),
                    };
                    match self.globals.get_mut(name) {
                        Some(slot) => *slot = v,
                        None => return fail(format!("no such global {}", name)),
                    }
                }
                Ins::Object(c) => {
                    let members = match m.consts.get(*c as usize) {
                        Some(Const::Class(ms)) => ms,
                        _ => return fail("object operand is not a class"),
                    };
                    let mut slot_names: Vec<String> = vec![];
                    let mut methods: Vec<(String, u16)> = vec![];
                    for x in members {
                        match m.consts.get(*x as usize) {
                            Some(Const::Slot(n)) => slot_names.push(self.string(*n)?.to_string()),
                            Some(Const::Method { name, .. }) => {
                                let nm = self.string(*name)?.to_string();
                                if methods.iter().any(|(k, _)| k == &nm) {
                                    return fail("duplicate method name in class");
                                }
                                methods.push((nm, *x));
                            }
                            _ => return fail("class member is neither slot nor method"),
                        }
                    }
                    let vals = self.popn(slot_names.len())?;
                    let mut fields: Vec<(String, V)> = vec![];
                    for (n, v) in slot_names.into_iter().zip(vals.into_iter()) {
                        if fields.iter().any(|(k, _)| k == &n) {
                            return fail("duplicate slot name in class");
                        }
                        fields.push((n, v));
                    }
                    let parent = self.pop()?;
                    self.heap.push(HObj::Object { parent, fields, methods });
                    self.stack.push(V::Ref(self.heap.len() - 1));
                }
                Ins::Array => {
                    let init = self.pop()?;
                    let size = self.pop()?;
                    match size {
                        V::Int(n) if n >= 0 => {
                            self.heap.push(HObj::Array(vec![init; n as usize]));
                            self.stack.push(V::Ref(self.heap.len() - 1));
                        }
                        V::Int(_) => return fail("negative array size"),
                        _ => return fail("array size is not an integer"),
                    }
                }
                Ins::GetSlot(n) => {
                    let name = self.string(*n)?;
                    let o = self.pop()?;
                    match o {
                        V::Ref(i) => match &self.heap[i] {
                            HObj::Object { fields, .. } => match fields.iter().find(|(k, _)| k == name) {
                                Some((_, v)) => self.stack.push(*v),
                                None => return fail(format!("no field {}", name)),
                            },
                            HObj::Array(_) => return fail("get slot on an array"),
                        },
                        _ => return fail("get slot on a primitive"),
                    }
                }
                Ins::SetSlot(n) => {
                    let name = self.string(*n)?;
                    let v = self.pop()?;
                    let o = self.pop()?;
                    match o {
                        V::Ref(i) => match &mut self.heap[i] {
                            HObj::Object { fields, .. } => match fields.iter_mut().find(|(k, _)| k == name) {
                                Some(slot) => {
                                    slot.1 = v;
                                    self.stack.push(v);
                                }
                                None => return fail(format!("no field {}", name)),
                            },
                            HObj::Array(_) => return fail("set slot on an array"),
                        },
                        _ => return fail("set slot on a primitive"),
                    }
                }
                Ins::CallSlot(n, k) => {
                    if *k == 0 {
                        return fail("method call without receiver");
                    }
                    let name = self.string(*n)?;
                    let args = self.popn(*k as usize - 1)?;
                    let recv = self.pop()?;
                    // dispatch along the parent chain
                    let mut cur_recv = recv;
                    loop {
                        match cur_recv {
                            V::Ref(i) => match &mut self.heap[i] {
                                HObj::Array(items) => {
                                    let r = match (name, args.len()) {
                                        ("get", 1) => match args[0] {
                                            V::Int(x) if x >= 0 && (x as usize) < items.len() => items[x as usize],
                                            _ => return fail("array index"),
                                        },
                                        ("set", 2) => match args[0] {
                                            V::Int(x) if x >= 0 && (x as usize) < items.len() => {
                                                items[x as usize] = args[1];
                                                args[1]
                                            }
                                            _ => return fail("array index"),
                                        },
                                        _ => return fail(format!("no method {} in array for {} arguments", name, args.len())),
                                    };
                                    self.stack.push(r);
                                    break;
                                }
                                HObj::Object { parent, methods, .. } => {
                                    match methods.iter().find(|(k, _)| k == name) {
                                        Some((_, mi)) => {
                                            let mi = *mi;
                                            let (nargs, nlocals, _) = self.method(mi)?;
                                            if nargs as usize != args.len() + 1 {
                                                return fail(format!("method {} arity", name));
                                            }
                                            let mut locals = Vec::with_capacity(nargs as usize + nlocals as usize);
                                            locals.push(cur_recv);
                                            locals.extend(args.iter().cloned());
                                            locals.extend(std::iter::repeat(V::Null).take(nlocals as usize));
                                            self.frames.push(Frame { ret: Some(next), locals });
                                            self.calls += 1;
                                            if self.frames.len() > 100_000 {
                                                return Err(MOutcome::Fuel);
                                            }
                                            next = (mi, 0);
                                            break;
                                        }
                                        None => {
                                            if *parent == V::Null {
                                                return fail(format!("no method {}", name));
                                            }
                                            cur_recv = *parent;
                                        }
                                    }
                                }
                            },
                            prim => match builtin(prim, name, &args) {
                                Ok(v) => {
                                    self.stack.push(v);
                                    break;
                                }
                                Err(e) => return fail(e),
                            },
                        }
                    }
                }
                Ins::Call(n, k) => {
                    let name = self.string(*n)?;
                    let mi = match self.funs.get(name) {
                        Some(i) => *i,
                        None => return fail(format!("no such function {}", name)),
                    };
                    let (nargs, nlocals, _) = self.method(mi)?;
                    if nargs != *k {
                        return fail(format!("function {} arity", name));
                    }
                    let mut locals = self.popn(*k as usize)?;
                    locals.extend(std::iter::repeat(V::Null).take(nlocals as usize));
                    self.frames.push(Frame { ret: Some(next), locals });
                    self.calls += 1;
                    if self.frames.len() > 100_000 {
                        return Err(MOutcome::Fuel);
                    }
                    next = (mi, 0);
                }
                Ins::Label(_) => {
                    self.labels_passed += 1;
                }
                Ins::Print(f, k) => {
                    let fmt = self.string(*f)?;
                    let args = self.popn(*k as usize)?;
                    let mut rendered = Vec::with_capacity(args.len());
                    for a in &args {
                        rendered.push(self.render(*a, 0)?);
                    }
                    match format_print(fmt, &rendered) {
                        Ok(s) => self.out.push_str(&s),
                        Err(e) => return fail(e),
                    }
                    self.stack.push(V::Null);
                }
                Ins::Goto(n) => {
                    let name = self.string(*n)?;
                    match self.labels.get(name) {
                        Some(a) => next = *a,
                        None => return fail(format!("undefined label {}", name)),
                    }
                }
                Ins::Branch(n) => {
                    let name = self.string(*n)?;
                    let v = self.pop()?;
                    if !matches!(v, V::Null | V::Bool(false)) {
                        match self.labels.get(name) {
                            Some(a) => next = *a,
                            None => return fail(format!("undefined label {}", name)),
                        }
                    }
                }
                Ins::Return => {
                    let f = self.frames.pop().unwrap();
                    match f.ret {
                        Some(a) => next = a,
                        None => return Ok(()),
                    }
                }
                Ins::Drop => {
                    self.pop()?;
                }
            }
            cur = next;
        }
    }

    fn render(&self, v: V, depth: usize) -> Step<String> {
        if depth > 3000 {
            return Err(MOutcome::Fuel);
        }
        Ok(match v {
            V::Null => "null".into(),
            V::Int(i) => i.to_string(),
            V::Bool(b) => b.to_string(),
            V::Ref(i) => match &self.heap[i] {
                HObj::Array(items) => {
                    let mut parts = vec![];
                    for x in items {
                        parts.push(self.render(*x, depth + 1)?);
                    }
                    format!("[{}]", parts.join(", "))
                }
                HObj::Object { parent, fields, .. } => {
                    let mut parts = vec![];
                    if *parent != V::Null {
                        parts.push(format!("..={}", self.render(*parent, depth + 1)?));
                    }
                    let mut fs: Vec<&(String, V)> = fields.iter().collect();
                    fs.sort_by(|a, b| a.0.as_bytes().cmp(b.0.as_bytes()));
                    for (n, x) in fs {
                        parts.push(format!("{}={}", n, self.render(*x, depth + 1)?));
                    }
                    format!("object({})", parts.join(", "))
                }
            },
        })
    }
}
