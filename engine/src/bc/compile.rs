//! Independent IR -> bytecode compiler with tape-chosen layout decisions
//! (label names, slot numbering, constant order and duplicates, method order,
//! entry position and trailing `return`, branch and loop layout).  Used by C05
//! to produce conforming bytecode that does NOT look like FML's own output.

use super::model::*;
use crate::ir::*;
use crate::tape::Tape;
use std::collections::BTreeMap;

const LABEL_WORDS: [&str; 14] = ["L", "else", "then", "λ", "loop", "x", "a", "ž", "日本", "end", "if:consequent:0", "f", "get", "👍"];

struct Pool {
    consts: Vec<Const>,
}

impl Pool {
    /// register a non-method constant; sometimes a duplicate entry is created on purpose
    fn intern(&mut self, c: Const, t: &mut Tape) -> u16 {
        if !t.chance(40) {
            if let Some(i) = self.consts.iter().position(|x| *x == c) {
                return i as u16;
            }
        }
        self.consts.push(c);
        (self.consts.len() - 1) as u16
    }
    fn str(&mut self, s: &str, t: &mut Tape) -> u16 {
        self.intern(Const::Str(s.to_string()), t)
    }
    fn junk(&mut self, t: &mut Tape) {
        let n = t.pick(4);
        for _ in 0..n {
            let c = match t.pick(5) {
                0 => Const::Int(t.i32_edge()),
                1 => Const::Str(LABEL_WORDS[t.pick(LABEL_WORDS.len())].to_string()),
                2 => Const::Null,
                3 => Const::Bool(t.flag()),
                _ => Const::Str(format!("unused{}", t.pick(100))),
            };
            self.consts.push(c);
        }
    }
}

struct FrameC {
    /// lexical scopes: name -> local slot
    scopes: Vec<BTreeMap<String, u16>>,
    nargs: usize,
    /// slots handed out so far (beyond the arguments), possibly sparse
    used: Vec<u16>,
    capacity: u16,
    top: bool,
}

pub struct Compiler<'t, 'a> {
    t: &'t mut Tape<'a>,
    pool: Pool,
    label_names: Vec<String>,
    label_seq: usize,
    global_slots: Vec<String>,
    /// finished functions: (name, const index)
    functions: Vec<u16>,
}

struct Out {
    code: Vec<Ins>,
}

impl Out {
    fn e(&mut self, i: Ins) {
        self.code.push(i)
    }
}

impl<'t, 'a> Compiler<'t, 'a> {
    /// a fresh unique label NAME; every use (label, goto, branch) interns the name anew, so
    /// the same name may sit in several constant-pool slots (jumps are by name, not by slot)
    fn fresh_label(&mut self) -> String {
        loop {
            self.label_seq += 1;
            let w = LABEL_WORDS[self.t.pick(LABEL_WORDS.len())];
            let name = match self.t.pick(3) {
                0 => format!("{}{}", w, self.label_seq),
                1 => format!("{}:{}", w, self.label_seq * 7),
                _ => format!("{} {}", self.label_seq, w),
            };
            if !self.label_names.contains(&name) {
                self.label_names.push(name.clone());
                return name;
            }
        }
    }

    fn l(&mut self, name: &str) -> u16 {
        self.pool.str(name, self.t)
    }

    fn new_slot(&mut self, f: &mut FrameC) -> u16 {
        // sparse / permuted numbering inside the frame
        let base = f.nargs as u16;
        for _ in 0..8 {
            let cand = base + self.t.pick(f.capacity as usize) as u16;
            if !f.used.contains(&cand) {
                f.used.push(cand);
                return cand;
            }
        }
        let mut cand = base;
        while f.used.contains(&cand) {
            cand += 1;
        }
        if cand >= base + f.capacity {
            f.capacity = cand - base + 1;
        }
        f.used.push(cand);
        cand
    }

    fn lookup(&self, f: &FrameC, name: &str) -> Option<u16> {
        for s in f.scopes.iter().rev() {
            if let Some(i) = s.get(name) {
                return Some(*i);
            }
        }
        None
    }

    fn at_global_scope(f: &FrameC) -> bool {
        f.top && f.scopes.len() == 1
    }

    fn lit(&mut self, c: Const, o: &mut Out) {
        let i = self.pool.intern(c, self.t);
        o.e(Ins::Lit(i));
    }

    /// Compile `e` leaving exactly one value on the operand stack.
    fn expr(&mut self, e: &E, f: &mut FrameC, o: &mut Out) {
        match e {
            E::Int(i) => self.lit(Const::Int(*i), o),
            E::Bool(b) => self.lit(Const::Bool(*b), o),
            E::Null => self.lit(Const::Null, o),
            E::Var(n) => match self.lookup(f, n) {
                Some(slot) => o.e(Ins::GetLocal(slot)),
                None => {
                    let i = self.pool.str(n, self.t);
                    o.e(Ins::GetGlobal(i));
                }
            },
            E::Let(n, v) => {
                self.expr(v, f, o);
                if Self::at_global_scope(f) {
                    if !self.global_slots.contains(n) {
                        self.global_slots.push(n.clone());
                    }
                    let i = self.pool.str(n, self.t);
                    o.e(Ins::SetGlobal(i));
                } else {
                    let existing = f.scopes.last().unwrap().get(n).copied();
                    let slot = match existing {
                        Some(s) => s,
                        None => {
                            let s = self.new_slot(f);
                            f.scopes.last_mut().unwrap().insert(n.clone(), s);
                            s
                        }
                    };
                    o.e(Ins::SetLocal(slot));
                }
            }
            E::Assign(n, v) => {
                // resolve after the value: inside the fragment both orders coincide
                self.expr(v, f, o);
                match self.lookup(f, n) {
                    Some(slot) => o.e(Ins::SetLocal(slot)),
                    None => {
                        let i = self.pool.str(n, self.t);
                        o.e(Ins::SetGlobal(i));
                    }
                }
            }
            E::Block(items) => {
                if items.is_empty() {
                    return self.lit(Const::Null, o);
                }
                f.scopes.push(BTreeMap::new());
                for (k, x) in items.iter().enumerate() {
                    self.expr(x, f, o);
                    if k + 1 < items.len() {
                        o.e(Ins::Drop);
                    }
                }
                f.scopes.pop();
            }
            E::If(c, th, el) => {
                self.expr(c, f, o);
                let l_then = self.fresh_label();
                let l_end = self.fresh_label();
                if self.t.flag() {
                    // FML-like: branch THEN; else; goto END; THEN: then; END:
                    o.e(Ins::Branch(self.l(&l_then)));
                    match el {
                        Some(x) => self.expr(x, f, o),
                        None => self.lit(Const::Null, o),
                    }
                    o.e(Ins::Goto(self.l(&l_end)));
                    o.e(Ins::Label(self.l(&l_then)));
                    self.expr(th, f, o);
                    o.e(Ins::Label(self.l(&l_end)));
                } else {
                    // branch THEN; goto ELSE; THEN: then; goto END; ELSE: else; END:
                    let l_else = self.fresh_label();
                    o.e(Ins::Branch(self.l(&l_then)));
                    o.e(Ins::Goto(self.l(&l_else)));
                    o.e(Ins::Label(self.l(&l_then)));
                    self.expr(th, f, o);
                    o.e(Ins::Goto(self.l(&l_end)));
                    o.e(Ins::Label(self.l(&l_else)));
                    match el {
                        Some(x) => self.expr(x, f, o),
                        None => self.lit(Const::Null, o),
                    }
                    o.e(Ins::Label(self.l(&l_end)));
                }
            }
            E::While(c, b) => {
                let l_top = self.fresh_label();
                let l_body = self.fresh_label();
                let l_end = self.fresh_label();
                if self.t.flag() {
                    // test at top
                    o.e(Ins::Label(self.l(&l_top)));
                    self.expr(c, f, o);
                    o.e(Ins::Branch(self.l(&l_body)));
                    o.e(Ins::Goto(self.l(&l_end)));
                    o.e(Ins::Label(self.l(&l_body)));
                    self.expr(b, f, o);
                    o.e(Ins::Drop);
                    o.e(Ins::Goto(self.l(&l_top)));
                    o.e(Ins::Label(self.l(&l_end)));
                } else {
                    // test at bottom (FML-like)
                    o.e(Ins::Goto(self.l(&l_top)));
                    o.e(Ins::Label(self.l(&l_body)));
                    self.expr(b, f, o);
                    o.e(Ins::Drop);
                    o.e(Ins::Label(self.l(&l_top)));
                    self.expr(c, f, o);
                    o.e(Ins::Branch(self.l(&l_body)));
                    o.e(Ins::Label(self.l(&l_end)));
                }
                self.lit(Const::Null, o);
            }
            E::Array(size, init) => {
                let simple = matches!(**init, E::Int(_) | E::Bool(_) | E::Null | E::Var(_) | E::Field(..));
                if simple {
                    self.expr(size, f, o);
                    self.expr(init, f, o);
                    o.e(Ins::Array);
                } else {
                    // temporaries are always frame locals here (FML uses globals at the top level)
                    let s_size = self.new_slot(f);
                    let s_arr = self.new_slot(f);
                    let s_i = self.new_slot(f);
                    self.expr(size, f, o);
                    o.e(Ins::SetLocal(s_size));
                    self.lit(Const::Null, o);
                    o.e(Ins::Array);
                    o.e(Ins::SetLocal(s_arr));
                    o.e(Ins::Drop);
                    self.lit(Const::Int(0), o);
                    o.e(Ins::SetLocal(s_i));
                    o.e(Ins::Drop);
                    let l_top = self.fresh_label();
                    let l_body = self.fresh_label();
                    let l_end = self.fresh_label();
                    let lt = self.pool.str(if self.t.flag() { "<" } else { "lt" }, self.t);
                    let add = self.pool.str(if self.t.flag() { "+" } else { "add" }, self.t);
                    let set = self.pool.str("set", self.t);
                    o.e(Ins::Label(self.l(&l_top)));
                    o.e(Ins::GetLocal(s_i));
                    o.e(Ins::GetLocal(s_size));
                    o.e(Ins::CallSlot(lt, 2));
                    o.e(Ins::Branch(self.l(&l_body)));
                    o.e(Ins::Goto(self.l(&l_end)));
                    o.e(Ins::Label(self.l(&l_body)));
                    o.e(Ins::GetLocal(s_arr));
                    o.e(Ins::GetLocal(s_i));
                    // the initializer may contain `let`s: they live in the enclosing scope
                    self.expr(init, f, o);
                    o.e(Ins::CallSlot(set, 3));
                    o.e(Ins::Drop);
                    o.e(Ins::GetLocal(s_i));
                    self.lit(Const::Int(1), o);
                    o.e(Ins::CallSlot(add, 2));
                    o.e(Ins::SetLocal(s_i));
                    o.e(Ins::Drop);
                    o.e(Ins::Goto(self.l(&l_top)));
                    o.e(Ins::Label(self.l(&l_end)));
                    o.e(Ins::GetLocal(s_arr));
                }
            }
            E::Index(a, i) => {
                self.expr(a, f, o);
                self.expr(i, f, o);
                let n = self.pool.str("get", self.t);
                o.e(Ins::CallSlot(n, 2));
            }
            E::IndexSet(a, i, v) => {
                self.expr(a, f, o);
                self.expr(i, f, o);
                self.expr(v, f, o);
                let n = self.pool.str("set", self.t);
                o.e(Ins::CallSlot(n, 3));
            }
            E::Object(p, ms) => {
                match p {
                    Some(p) => self.expr(p, f, o),
                    None => self.lit(Const::Null, o),
                }
                let mut members: Vec<u16> = vec![];
                for m in ms {
                    match m {
                        Member::Field(n, init) => {
                            self.expr(init, f, o);
                            let ni = self.pool.str(n, self.t);
                            members.push(self.pool.intern(Const::Slot(ni), self.t));
                        }
                        Member::Method(n, params, body) => {
                            let mut ps = vec!["this".to_string()];
                            ps.extend(params.iter().cloned());
                            let mi = self.method(n, &ps, body);
                            members.push(mi);
                        }
                    }
                }
                let ci = self.pool.intern(Const::Class(members), self.t);
                o.e(Ins::Object(ci));
            }
            E::Field(ob, n) => {
                self.expr(ob, f, o);
                let i = self.pool.str(n, self.t);
                o.e(Ins::GetSlot(i));
            }
            E::FieldSet(ob, n, v) => {
                self.expr(ob, f, o);
                self.expr(v, f, o);
                let i = self.pool.str(n, self.t);
                o.e(Ins::SetSlot(i));
            }
            E::Call(n, args) => {
                for a in args {
                    self.expr(a, f, o);
                }
                let i = self.pool.str(n, self.t);
                o.e(Ins::Call(i, args.len() as u8));
            }
            E::MCall(r, n, args) => {
                self.expr(r, f, o);
                for a in args {
                    self.expr(a, f, o);
                }
                let i = self.pool.str(n, self.t);
                o.e(Ins::CallSlot(i, args.len() as u8 + 1));
            }
            E::Bin(op, l, r) => {
                self.expr(l, f, o);
                self.expr(r, f, o);
                let i = self.pool.str(op, self.t);
                o.e(Ins::CallSlot(i, 2));
            }
            E::Print(fmt, args) => {
                for a in args {
                    self.expr(a, f, o);
                }
                let i = self.pool.str(fmt, self.t);
                o.e(Ins::Print(i, args.len() as u8));
            }
            E::Fun(..) => {
                // only at the top level (handled there); as an expression it has no value
                self.lit(Const::Null, o);
            }
        }
    }

    /// Compile a function or method body into a Method constant; returns its index.
    fn method(&mut self, name: &str, params: &[String], body: &E) -> u16 {
        let mut scope = BTreeMap::new();
        for (i, p) in params.iter().enumerate() {
            scope.insert(p.clone(), i as u16);
        }
        let cap = 2 + self.t.pick(6) as u16;
        let mut f = FrameC { scopes: vec![scope], nargs: params.len(), used: vec![], capacity: cap, top: false };
        let mut o = Out { code: vec![] };
        self.expr(body, &mut f, &mut o);
        o.e(Ins::Return);
        let nlocals = f.used.iter().map(|s| *s - f.nargs as u16 + 1).max().unwrap_or(0).max(if self.t.flag() { f.capacity } else { 0 });
        let ni = self.pool.str(name, self.t);
        self.pool.junk(self.t);
        self.pool.consts.push(Const::Method { name: ni, nargs: params.len() as u8, nlocals, code: o.code });
        (self.pool.consts.len() - 1) as u16
    }
}

pub struct Compiled {
    pub model: Model,
    /// does the entry method end in `return`?
    pub entry_returns: bool,
}

pub fn compile(prog: &Prog, t: &mut Tape) -> Compiled {
    let mut c = Compiler { t, pool: Pool { consts: vec![] }, label_names: vec![], label_seq: 0, global_slots: vec![], functions: vec![] };
    c.pool.junk(c.t);
    // entry position among the methods: functions compiled before / after the entry body
    let funs: Vec<&E> = prog.iter().filter(|e| matches!(e, E::Fun(..))).collect();
    let split = c.t.pick(funs.len() + 1);
    let mut order: Vec<usize> = (0..funs.len()).collect();
    if funs.len() > 1 && c.t.flag() {
        order.reverse();
    }
    let compile_fun = |c: &mut Compiler, e: &E| {
        if let E::Fun(name, params, body) = e {
            let mi = c.method(name, params, body);
            c.functions.push(mi);
        }
    };
    for k in 0..split {
        compile_fun(&mut c, funs[order[k]]);
    }
    // entry
    let cap = 2 + c.t.pick(6) as u16;
    let mut f = FrameC { scopes: vec![BTreeMap::new()], nargs: 0, used: vec![], capacity: cap, top: true };
    let mut o = Out { code: vec![] };
    let items: Vec<&E> = prog.iter().filter(|e| !matches!(e, E::Fun(..))).collect();
    for (k, x) in items.iter().enumerate() {
        c.expr(x, &mut f, &mut o);
        if k + 1 < items.len() {
            o.e(Ins::Drop);
        }
    }
    if items.is_empty() {
        c.lit(Const::Null, &mut o);
    }
    let entry_is_last = split == funs.len();
    // methods of object literals inside the entry body were appended to the pool while
    // compiling it; "last" refers to file order of method constants, which the VM
    // lays out in memory: ending in `return` is always correct, and required unless
    // no method constant follows the entry
    let entry_returns = !entry_is_last || c.t.flag();
    if entry_returns {
        o.e(Ins::Return);
    }
    let nlocals = f.used.iter().map(|s| *s + 1).max().unwrap_or(0).max(if c.t.flag() { f.capacity } else { 0 });
    let ename = c.pool.str(["λ:", "main", "entry", ""][c.t.pick(4)], c.t);
    c.pool.junk(c.t);
    c.pool.consts.push(Const::Method { name: ename, nargs: 0, nlocals, code: o.code });
    let entry = (c.pool.consts.len() - 1) as u16;
    for k in split..funs.len() {
        compile_fun(&mut c, funs[order[k]]);
    }
    // globals: slots and functions in tape-chosen order
    let mut globals: Vec<u16> = vec![];
    let gs = c.global_slots.clone();
    for n in gs {
        let ni = c.pool.str(&n, c.t);
        // a Slot constant used as a global must be distinct per name only
        let si = c.pool.intern(Const::Slot(ni), c.t);
        if !globals.contains(&si) {
            globals.push(si);
        } else {
            c.pool.consts.push(Const::Slot(ni));
            globals.push((c.pool.consts.len() - 1) as u16);
        }
    }
    globals.extend(c.functions.iter().cloned());
    if globals.len() > 1 {
        let r = c.t.pick(globals.len());
        globals.rotate_left(r);
    }
    c.pool.junk(c.t);
    let mut model = Model { consts: c.pool.consts, globals, entry };
    // sometimes the entry method is the very first constant (its name comes later in the pool):
    // nothing in the format gives index 0 a meaning of its own
    if entry_returns && c.t.chance(12) {
        model = model.with_const_moved(entry as usize, 0);
    }
    Compiled { model, entry_returns }
}
