//! Projection of FML's in-memory `Program` onto the independent model, using
//! only its public accessors (content, not representation).

use super::model::*;
use crate::bytecode::bytecode::OpCode;
use crate::bytecode::program::{Program, ProgramObject};

pub fn ins_of(op: &OpCode) -> Ins {
    match op {
        OpCode::Label { name } => Ins::Label(name.value()),
        OpCode::Literal { index } => Ins::Lit(index.value()),
        OpCode::Print { format, arguments } => Ins::Print(format.value(), arguments.value()),
        OpCode::Array => Ins::Array,
        OpCode::Object { class } => Ins::Object(class.value()),
        OpCode::GetField { name } => Ins::GetSlot(name.value()),
        OpCode::SetField { name } => Ins::SetSlot(name.value()),
        OpCode::CallMethod { name, arguments } => Ins::CallSlot(name.value(), arguments.value()),
        OpCode::CallFunction { name, arguments } => Ins::Call(name.value(), arguments.value()),
        OpCode::SetLocal { index } => Ins::SetLocal(index.value()),
        OpCode::GetLocal { index } => Ins::GetLocal(index.value()),
        OpCode::SetGlobal { name } => Ins::SetGlobal(name.value()),
        OpCode::GetGlobal { name } => Ins::GetGlobal(name.value()),
        OpCode::Branch { label } => Ins::Branch(label.value()),
        OpCode::Jump { label } => Ins::Goto(label.value()),
        OpCode::Return => Ins::Return,
        OpCode::Drop => Ins::Drop,
    }
}

pub struct Projection {
    pub model: Model,
    /// (constant index, start address, length) of every method, for the
    /// "each instruction belongs to exactly one method" clause
    pub ranges: Vec<(usize, usize, usize)>,
    pub code_len: usize,
}

pub fn project(p: &Program) -> Result<Projection, String> {
    let mut consts = vec![];
    let mut ranges = vec![];
    for (i, c) in p.constant_pool.iter().enumerate() {
        consts.push(match c {
            ProgramObject::Integer(v) => Const::Int(*v),
            ProgramObject::Boolean(b) => Const::Bool(*b),
            ProgramObject::Null => Const::Null,
            ProgramObject::String(s) => Const::Str(s.clone()),
            ProgramObject::Slot { name } => Const::Slot(name.value()),
            ProgramObject::Class(v) => Const::Class(v.iter().map(|x| x.value()).collect()),
            ProgramObject::Method { name, parameters, locals, code } => {
                let ops = p.code.materialize(code).map_err(|e| format!("method #{}: {:#}", i, e))?;
                ranges.push((i, code.start().value_usize(), code.length()));
                Const::Method {
                    name: name.value(),
                    nargs: parameters.value(),
                    nlocals: locals.value(),
                    code: ops.into_iter().map(ins_of).collect(),
                }
            }
        });
    }
    let globals = p.globals.iter().map(|g| g.value()).collect();
    let entry = p.entry.get().map_err(|e| format!("{:#}", e))?.value();
    Ok(Projection { model: Model { consts, globals, entry }, ranges, code_len: p.code.length() })
}
