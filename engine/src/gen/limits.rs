//! Fixed "limit" programs: sizes that sit exactly on, one below and one above the widths of the
//! bytecode format (u8 arity, u16 counts).  Whether FML accepts or refuses such a program is
//! not the point: the same program must be treated the same way by every build profile and in
//! every run (C11), and whatever the compiler emits for it must be well-formed (C02).
//! Random generation never reaches these sizes.

fn list(n: usize, f: impl Fn(usize) -> String) -> String {
    (0..n).map(f).collect::<Vec<_>>().join(", ")
}

pub fn programs() -> Vec<(String, String)> {
    let mut out: Vec<(String, String)> = vec![];
    for n in [253usize, 254, 255, 256, 257] {
        // function call with n arguments
        out.push((
            format!("function-call-{}-arguments", n),
            format!("function f({}) -> a0 + a{}; print(\"before\\n\"); print(\"~\\n\", f({})); print(\"after\\n\")", list(n, |i| format!("a{}", i)), n - 1, list(n, |i| format!("{}", i + 1))),
        ));
        // method call with n explicit arguments (the receiver is one more)
        out.push((
            format!("method-call-{}-arguments", n),
            format!(
                "let o = object begin function m({}) -> a0 + a{} end; print(\"before\\n\"); print(\"~\\n\", o.m({})); print(\"after\\n\")",
                list(n, |i| format!("a{}", i)),
                n - 1,
                list(n, |i| format!("{}", i + 1))
            ),
        ));
        // the same calls compiled but never executed, against a callee with one parameter: only the
        // call site's own encoding is at the limit
        out.push((
            format!("unexecuted-method-call-{}-arguments", n),
            format!("let o = object begin function m(a) -> a end; print(\"before\\n\"); if false then o.m({}) else null; print(\"after\\n\")", list(n, |i| format!("{}", i + 1))),
        ));
        out.push((
            format!("unexecuted-function-call-{}-arguments", n),
            format!("function f(a) -> a; print(\"before\\n\"); if false then f({}) else null; print(\"after\\n\")", list(n, |i| format!("{}", i + 1))),
        ));
        out.push((
            format!("unexecuted-print-{}-arguments", n),
            format!("print(\"before\\n\"); if false then print(\"~\", {}) else null; print(\"after\\n\")", list(n, |i| format!("{}", i % 10))),
        ));
        out.push((
            format!("unexecuted-index-call-{}-arguments", n),
            format!("let o = object begin function get(a) -> a end; print(\"before\\n\"); if false then o.get({}) else null; print(\"after\\n\")", list(n, |i| format!("{}", i + 1))),
        ));
        // print with n arguments
        out.push((format!("print-{}-arguments", n), format!("print(\"before\\n\"); print(\"{}\\n\", {}); print(\"after\\n\")", "~".repeat(n), list(n, |i| format!("{}", i % 10)))));
        // object with n fields / n methods
        out.push((
            format!("object-{}-fields", n),
            format!("let o = object begin {} end; print(\"~ ~\\n\", o.f0, o.f{})", (0..n).map(|i| format!("let f{} = {};", i, i)).collect::<Vec<_>>().join(" "), n - 1),
        ));
        out.push((
            format!("object-{}-methods", n),
            format!("let o = object begin {} end; print(\"~ ~\\n\", o.m0(), o.m{}())", (0..n).map(|i| format!("function m{}() -> {};", i, i)).collect::<Vec<_>>().join(" "), n - 1),
        ));
        // function with n locals besides its parameter; block-local slots in the entry frame
        out.push((
            format!("function-{}-locals", n),
            format!("function f(p) -> begin {} v0 + v{} + p end; print(\"~\\n\", f(1))", (0..n).map(|i| format!("let v{} = {};", i, i)).collect::<Vec<_>>().join(" "), n - 1),
        ));
        out.push((
            format!("entry-block-{}-locals", n),
            format!("begin {} print(\"~\\n\", v0 + v{}) end", (0..n).map(|i| format!("let v{} = {};", i, i)).collect::<Vec<_>>().join(" "), n - 1),
        ));
        // operator method with a long argument list
        out.push((
            format!("operator-method-{}-arguments", n),
            format!("let o = object begin function +({}) -> a0 end; print(\"~\\n\", o.+({}))", list(n, |i| format!("a{}", i)), list(n, |i| format!("{}", i))),
        ));
    }
    // 254..258 (and 513) blocks in one frame: scope bookkeeping at the width of a byte
    for n in [254usize, 255, 256, 257, 258, 513] {
        for (frame, fname) in ["top-level", "function", "method"].iter().enumerate() {
            let prog = crate::gen::scale::many_scopes(n, frame);
            out.push((format!("{}-blocks-in-one-{}-frame", n, fname), crate::render::text(&prog, crate::render::Style::Minimal)));
        }
    }
    // values nested 300..1000 deep reaching print (1000 is the chain length the toolchain is
    // asked to print without exhausting its stack): every build must make the same of them
    for n in [300usize, 600, 800, 1000] {
        out.push((format!("printed-chain-of-{}-objects", n), format!("let cur = null; let i = 0; while i < {} do begin cur <- object begin let f = cur end; i <- i + 1 end; print(\"~\\n\", cur)", n)));
        out.push((format!("printed-chain-of-{}-arrays", n), format!("let cur = 0; let i = 0; while i < {} do begin cur <- array(1, cur); i <- i + 1 end; print(\"~\\n\", cur)", n)));
        out.push((format!("printed-chain-of-{}-parents", n), format!("let cur = null; let i = 0; while i < {} do begin cur <- object extends cur begin let k = i end; i <- i + 1 end; print(\"~\\n\", cur)", n)));
    }
    // overflowing arithmetic through every spelling of the operators (wraps in every build)
    for (name, call) in [("add", "2147483647.add(1)"), ("sub", "-2147483648.sub(1)"), ("mul", "65536.mul(65536)"), ("plus", "2147483647 + 1"), ("minus", "-2147483648 - 1"), ("times", "46341 * 46341"), ("plus-call", "2147483647.+(1)")] {
        out.push((format!("overflow-through-{}", name), format!("print(\"before\\n\"); print(\"~\\n\", {}); print(\"after\\n\")", call)));
    }
    // integer literals around the 32-bit range (beyond it the parser refuses; it must do so alike everywhere)
    for (name, lit) in [("max", "2147483647"), ("min", "-2147483648"), ("max-plus-1", "2147483648"), ("min-minus-1", "-2147483649"), ("u32-max", "4294967295"), ("i64-max-plus-1", "9223372036854775808")] {
        out.push((format!("integer-literal-{}", name), format!("print(\"before\\n\"); print(\"~\\n\", {})", lit)));
    }
    // array sizes at and beyond zero
    for n in ["0", "-1", "-2147483648"] {
        out.push((format!("array-size-{}", n), format!("print(\"before\\n\"); let a = array({}, 7); print(\"~\\n\", a)", n)));
        out.push((format!("compound-array-size-{}", n), format!("function g() -> 7; print(\"before\\n\"); let a = array({}, g()); print(\"~\\n\", a)", n)));
    }
    out
}

/// The u16 widths (constant-pool indices, local slots): programs around 65535 constants and
/// 65535 locals.  Half a megabyte of source each and, in a debug build, some twenty seconds of
/// compile time because the pool is searched linearly: thorough tier only.
pub fn huge_programs() -> Vec<(String, String)> {
    let mut out: Vec<(String, String)> = vec![];
    // the pool also holds a handful of constants of its own (entry name, method, null), so 
    // every count around the limit is tried: two of them are the exact boundaries (index and count)
    for n in [65500usize, 65529, 65530, 65531, 65532, 65533, 65534, 65535, 65536, 65537] {
        let lits: Vec<String> = (1..=n).map(|i| i.to_string()).collect();
        out.push((format!("{}-integer-constants", n), format!("{}; print(\"done\\n\")", lits.join("; "))));
    }
    for n in [65533usize, 65534, 65535, 65536, 65537] {
        let lets: Vec<String> = (0..n).map(|i| format!("let v{} = 0;", i)).collect();
        out.push((format!("function-{}-locals", n), format!("function f() -> begin {} v0 + v{} end; print(\"~\\n\", f())", lets.join(" "), n - 1)));
    }
    out
}

