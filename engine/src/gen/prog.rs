//! Typed, scoped program generator: choice tape -> IR program inside the
//! defined fragment (DESIGN 2.2).  Generation order equals evaluation order, so
//! "defined so far" at generation time is "definitely defined" at run time.

use crate::ir::*;
use crate::tape::Tape;

#[derive(Clone, Debug, PartialEq, Eq)]
pub enum Ty {
    Int,
    Bool,
    Null,
    Arr(Box<Ty>, usize),
    Obj(usize),
}

#[derive(Clone, Debug)]
pub struct Profile {
    pub name: &'static str,
    pub max_top: usize,
    pub depth: usize,
    pub budget: isize,
    /// chance (of 256) that the program contains one injected run-time fault
    pub fault: u32,
    pub arith: bool,
    pub arrays: bool,
    pub objects: bool,
    pub functions: bool,
    pub loops: bool,
    pub w_block: u32,
    /// weight of expression statements whose value is discarded
    pub w_discard: u32,
    pub w_print: u32,
    pub w_let: u32,
    pub exotic: bool,
    pub many_names: bool,
    pub epilogue: bool,
    pub max_array: usize,
    pub max_classes: usize,
    pub max_funs: usize,
    pub feeny_names: bool,
    /// multiplier for method-call candidates found in a strict ancestor
    pub w_inherited: usize,
    pub w_meth: u32,
    pub w_field: u32,
    pub w_parent_obj: u32,
    /// start with classes, instances, aliases and arrays of instances (C14)
    pub object_prologue: bool,
}

impl Profile {
    pub fn full() -> Profile {
        Profile {
            name: "full",
            max_top: 10,
            depth: 4,
            budget: 220,
            fault: 38,
            arith: true,
            arrays: true,
            objects: true,
            functions: true,
            loops: true,
            w_block: 10,
            w_discard: 14,
            w_print: 26,
            w_let: 22,
            exotic: false,
            many_names: false,
            epilogue: true,
            max_array: 5,
            max_classes: 4,
            max_funs: 5,
            feeny_names: false,
            w_inherited: 2,
            w_meth: 7,
            w_field: 5,
            w_parent_obj: 10,
            object_prologue: false,
        }
    }
    pub fn discard_heavy() -> Profile {
        let mut p = Profile::full();
        p.name = "discard";
        p.w_discard = 60;
        p.w_block = 24;
        p.fault = 20;
        p
    }
    pub fn scope_heavy() -> Profile {
        let mut p = Profile::full();
        p.name = "scope";
        p.arith = false;
        p.arrays = false;
        p.objects = false;
        p.w_block = 40;
        p.w_let = 40;
        p.fault = 0;
        p.max_top = 12;
        p
    }
    /// as many blocks and lets as `scope_heavy`, but with everything else switched on: arrays
    /// with computed initializers (hidden temporaries and a scope of their own in the compiler),
    /// object literals (method frames), arithmetic - scoping next to constructs that do their
    /// own bookkeeping
    pub fn scope_mixed() -> Profile {
        let mut p = Profile::full();
        p.name = "scope-mixed";
        p.w_block = 40;
        p.w_let = 40;
        p.fault = 0;
        p.max_top = 12;
        p
    }
    pub fn object_heavy() -> Profile {
        let mut p = Profile::full();
        p.name = "object";
        p.max_classes = 6;
        p.fault = 40;
        p.w_inherited = 8;
        p.max_top = 8;
        p.w_meth = 34;
        p.w_field = 16;
        p.w_parent_obj = 34;
        p.object_prologue = true;
        p.budget = 260;
        p
    }
    pub fn alloc_heavy() -> Profile {
        let mut p = Profile::full();
        p.name = "alloc";
        p.max_array = 40;
        p.fault = 30;
        p
    }
    pub fn many_names() -> Profile {
        let mut p = Profile::full();
        p.name = "names";
        p.many_names = true;
        p.max_top = 16;
        p.budget = 320;
        p.fault = 10;
        p
    }
    pub fn exotic() -> Profile {
        let mut p = Profile::full();
        p.name = "exotic";
        p.exotic = true;
        p.fault = 16;
        p.budget = 120;
        p.max_top = 7;
        p
    }
    pub fn no_fault(mut self) -> Profile {
        self.fault = 0;
        self
    }
}

#[derive(Clone, Debug)]
struct VarInfo {
    name: String,
    ty: Ty,
    ro: bool,
}

struct FrameEnv {
    scopes: Vec<Vec<VarInfo>>,
    top: bool,
    /// >0: inside a conditionally executed region of the current scope
    cond: usize,
}

#[derive(Clone, Debug)]
struct FunSig {
    name: String,
    params: Vec<Ty>,
    ret: Ty,
    recursive: bool,
}

#[derive(Clone, Debug)]
enum Parent {
    Null,
    Int,
    Bool,
    Arr(Ty, usize),
    Obj(usize),
}

#[derive(Clone, Debug)]
struct MethodSig {
    name: String,
    params: Vec<Ty>,
    ret: Ty,
}

#[derive(Clone, Debug)]
struct Class {
    ctor: Option<(String, Vec<Ty>)>,
    fields: Vec<(String, Ty)>,
    methods: Vec<MethodSig>,
    parent: Parent,
}

pub struct Generated {
    pub prog: Prog,
    pub fault: Option<String>,
}

const NAMES: [&str; 14] = ["a", "b", "c", "x", "y", "z", "n", "m", "k", "p", "q", "r", "s", "t"];
const EXOTIC_NAMES: [&str; 24] = [
    "nil", "t", "yes", "no", "on", "off", "y", "n", "NULL", "True", "False", "NaN", "inf", "_", "e5", "Top", "Integer",
    "Null", "Boolean", "Block", "_0", "x_y", "Some", "None",
];
const FIELD_NAMES: [&str; 12] = ["f", "g", "val", "B", "Z9", "_a", "aa", "a_", "a0", "len", "x", "next"];
// the last ten are the Feeny word names of built-in operators: as names of user methods they
// are names like any other (add / sub / mul are left out: the generator itself calls those
// three as built-ins through a parent)
const METHOD_NAMES: [&str; 18] = ["m", "go", "peek", "bump", "size", "twice", "print", "id", "eq", "neq", "and", "or", "le", "lt", "ge", "gt", "div", "mod"];
const EXOTIC_TEXT: [&str; 40] = [
    ": ", " #", "- ", "? ", "|", ">", "%", "@", "`", "!!", "&", "*", "---", "...", " ", "null", "\\~", "true", "yes",
    "1e3", "0x1F", ".inf", "2001-01-01", "(", ")", ";", "'", ",", ".", "#t", "#f", "#nil", "\\\\x41;", "\\\\u0041",
    "\\\"", "\u{e9}", "\u{1F44D}", "\u{2028}", "\u{feff}", "{[]}",
];
const EXOTIC_CTRL: [&str; 13] = ["\u{0}", "\u{1}", "\u{7}", "\u{8}", "\u{b}", "\u{c}", "\u{1b}", "\u{7f}", "\u{85}", "\u{a0}", "\r", "\n", "\t"];

pub struct Gen<'t, 'a> {
    t: &'t mut Tape<'a>,
    prof: Profile,
    budget: isize,
    globals: Vec<VarInfo>,
    frames: Vec<FrameEnv>,
    funs: Vec<FunSig>,
    classes: Vec<Class>,
    pending: Vec<E>,
    hoisted: Vec<E>,
    uniq: usize,
    tag: usize,
    fault_armed: bool,
    fault: Option<String>,
    creating: usize,
    fun_names: Vec<String>,
    /// names that are the target of an assignment whose value is being generated:
    /// FML resolves the target before it compiles the value, so the value must not
    /// introduce a new binding of that name (outside the fragment, DESIGN 2.2)
    assigning: Vec<String>,
}

pub fn generate(t: &mut Tape, prof: &Profile) -> Generated {
    let armed = prof.fault > 0 && t.chance(prof.fault);
    let mut g = Gen {
        t,
        prof: prof.clone(),
        budget: prof.budget,
        globals: vec![],
        frames: vec![FrameEnv { scopes: vec![vec![]], top: true, cond: 0 }],
        funs: vec![],
        classes: vec![],
        pending: vec![],
        hoisted: vec![],
        uniq: 0,
        tag: 0,
        fault_armed: armed,
        fault: None,
        creating: 0,
        fun_names: vec![],
        assigning: vec![],
    };
    let prog = g.program();
    Generated { prog, fault: g.fault }
}

impl<'t, 'a> Gen<'t, 'a> {
    // ---------------------------------------------------------------- program

    fn program(&mut self) -> Prog {
        let mut prog: Prog = vec![];
        let n = 1 + self.t.pick(self.prof.max_top);
        if self.prof.many_names {
            // C11: many globals, functions, labels and printed fields
            for _ in 0..8 {
                let ty = self.prim_ty();
                let name = self.fresh_name();
                let e = self.leaf(&ty);
                self.define(&name, ty, false);
                prog.push(E::Let(name, bx(e)));
            }
        }
        if self.prof.object_prologue {
            let nc = 2 + self.t.pick(3);
            for _ in 0..nc {
                if self.classes.len() < self.prof.max_classes {
                    self.new_class();
                }
            }
            prog.append(&mut self.pending);
            let ks: Vec<usize> = (0..self.classes.len()).rev().take(4).collect();
            for k in ks {
                let e = self.construct(k, 2);
                prog.append(&mut self.pending);
                // the name is chosen after the value: the value may itself define variables
                let name = self.fresh_name();
                self.define(&name, Ty::Obj(k), false);
                prog.push(E::Let(name.clone(), bx(e)));
                if self.t.chance(150) {
                    let al = self.fresh_name();
                    self.define(&al, Ty::Obj(k), false);
                    prog.push(E::Let(al, bx(E::Var(name.clone()))));
                }
                if self.prof.arrays && self.t.chance(100) {
                    let ar = self.fresh_name();
                    self.define(&ar, Ty::Arr(Box::new(Ty::Obj(k)), 2), false);
                    prog.push(E::Let(ar, bx(E::Array(bx(E::Int(2)), bx(E::Var(name.clone()))))));
                }
            }
        }
        for _ in 0..n {
            let mut out = vec![];
            self.stmts(&mut out, self.prof.depth);
            prog.append(&mut self.pending);
            prog.append(&mut out);
            if self.budget <= 0 && self.t.exhausted() {
                break;
            }
        }
        if self.prof.epilogue {
            let gl: Vec<VarInfo> = self.globals.clone();
            for chunk in gl.chunks(4) {
                let mut fmt = String::from("end");
                let mut args = vec![];
                for v in chunk {
                    fmt.push_str(" ~");
                    args.push(E::Var(v.name.clone()));
                }
                fmt.push_str("\\n");
                prog.push(E::Print(fmt, args));
            }
        }
        prog.append(&mut self.pending);
        prog.append(&mut self.hoisted);
        prog
    }

    // ---------------------------------------------------------------- environment

    fn frame(&mut self) -> &mut FrameEnv {
        self.frames.last_mut().unwrap()
    }

    fn at_global_scope(&self) -> bool {
        let f = self.frames.last().unwrap();
        f.top && f.scopes.len() == 1
    }

    fn conditional(&self) -> bool {
        self.frames.last().unwrap().cond > 0
    }

    /// Visible variables (innermost binding of each name only).
    fn visible(&self) -> Vec<VarInfo> {
        let mut seen: Vec<String> = vec![];
        let mut out = vec![];
        let f = self.frames.last().unwrap();
        for s in f.scopes.iter().rev() {
            for v in s.iter().rev() {
                if !seen.contains(&v.name) {
                    seen.push(v.name.clone());
                    out.push(v.clone());
                }
            }
        }
        for v in self.globals.iter().rev() {
            if !seen.contains(&v.name) {
                seen.push(v.name.clone());
                out.push(v.clone());
            }
        }
        out
    }

    fn vars_of(&self, ty: &Ty, writable: bool) -> Vec<VarInfo> {
        self.visible().into_iter().filter(|v| &v.ty == ty && (!writable || !v.ro)).collect()
    }

    fn defined_in_current_scope(&self, name: &str) -> bool {
        if self.at_global_scope() {
            self.globals.iter().any(|v| v.name == name)
        } else {
            self.frames.last().unwrap().scopes.last().unwrap().iter().any(|v| v.name == name)
        }
    }

    fn unique(&mut self, prefix: &str) -> String {
        self.uniq += 1;
        format!("{}{}", prefix, self.uniq)
    }

    fn fresh_name(&mut self) -> String {
        let pool: &[&str] = if self.prof.exotic { &EXOTIC_NAMES } else { &NAMES };
        let cand = pool[self.t.pick(pool.len())].to_string();
        // functions and variables live in separate name spaces: a variable may be named like a
        // function (most of the time it is not, to keep programs readable)
        let clashes_with_function = self.fun_names.contains(&cand) && !self.t.chance(64);
        if cand == "this" || self.defined_in_current_scope(&cand) || clashes_with_function || self.assigning.contains(&cand) {
            return self.unique("v");
        }
        // a global must not clash with names already global (same scope) - checked above
        cand
    }

    fn define(&mut self, name: &str, ty: Ty, ro: bool) {
        let v = VarInfo { name: name.to_string(), ty, ro };
        if self.at_global_scope() {
            self.globals.push(v);
        } else {
            self.frame().scopes.last_mut().unwrap().push(v);
        }
    }

    fn push_scope(&mut self) -> usize {
        let f = self.frame();
        f.scopes.push(vec![]);
        let saved = f.cond;
        f.cond = 0;
        saved
    }

    fn pop_scope(&mut self, saved: usize) {
        let f = self.frame();
        f.scopes.pop();
        f.cond = saved;
    }

    // ---------------------------------------------------------------- types

    fn prim_ty(&mut self) -> Ty {
        match self.t.weighted(&[6, 3, 1]) {
            0 => Ty::Int,
            1 => Ty::Bool,
            _ => Ty::Null,
        }
    }

    fn obj_available(&self, k: usize) -> bool {
        self.classes[k].ctor.is_some() || !self.vars_of(&Ty::Obj(k), false).is_empty()
    }

    /// A type for a new variable / parameter / field. `portable`: must be
    /// constructible anywhere (no reliance on a variable in scope).
    fn random_ty(&mut self, d: usize, portable: bool) -> Ty {
        let w_arr = if self.prof.arrays && d > 0 { 4 } else { 0 };
        let w_obj = if self.prof.objects && d > 0 { 4 } else { 0 };
        match self.t.weighted(&[8, 3, 1, w_arr, w_obj]) {
            0 => Ty::Int,
            1 => Ty::Bool,
            2 => Ty::Null,
            3 => {
                let elem = self.random_ty(d.saturating_sub(2), portable);
                let len = match self.t.weighted(&[1, 8, 1]) {
                    0 => 0,
                    1 => 1 + self.t.pick(4.min(self.prof.max_array.max(1))),
                    _ => self.t.pick(self.prof.max_array + 1),
                };
                Ty::Arr(Box::new(elem), len)
            }
            _ => {
                let avail: Vec<usize> = (0..self.classes.len())
                    .filter(|k| if portable { self.classes[*k].ctor.is_some() } else { self.obj_available(*k) })
                    .collect();
                let want_new = self.classes.len() < self.prof.max_classes && self.creating < 2 && self.t.chance(110);
                if want_new || avail.is_empty() {
                    if self.classes.len() < self.prof.max_classes && self.creating < 2 {
                        let k = self.new_class();
                        Ty::Obj(k)
                    } else if !avail.is_empty() {
                        Ty::Obj(avail[self.t.pick(avail.len())])
                    } else {
                        Ty::Int
                    }
                } else {
                    Ty::Obj(avail[self.t.pick(avail.len())])
                }
            }
        }
    }

    // ---------------------------------------------------------------- leaves

    fn int_lit(&mut self) -> E {
        let v = match self.t.weighted(&[10, 3, 1]) {
            0 => self.t.pick(10) as i32,
            1 => self.t.range(-20, 100) as i32,
            _ => self.t.i32_edge() / 4, // keep clear of overflow: C09 owns the edges
        };
        E::Int(v)
    }

    fn leaf(&mut self, ty: &Ty) -> E {
        self.budget -= 1;
        let vars = self.vars_of(ty, false);
        if !vars.is_empty() && self.t.chance(140) {
            return E::Var(vars[self.t.pick(vars.len())].name.clone());
        }
        match ty {
            Ty::Int => self.int_lit(),
            Ty::Bool => E::Bool(self.t.flag()),
            Ty::Null => E::Null,
            Ty::Arr(elem, len) => {
                let init = self.leaf(elem);
                E::Array(bx(E::Int(*len as i32)), bx(init))
            }
            Ty::Obj(k) => self.construct(*k, 0),
        }
    }

    fn construct(&mut self, k: usize, d: usize) -> E {
        match self.classes[k].ctor.clone() {
            Some((name, params)) => {
                let args: Vec<E> = params.iter().map(|p| self.expr(p, d.saturating_sub(1))).collect();
                E::Call(name, args)
            }
            None => {
                let vars = self.vars_of(&Ty::Obj(k), false);
                if vars.is_empty() {
                    // cannot happen for types handed out by random_ty; keep total
                    E::Null
                } else {
                    E::Var(vars[self.t.pick(vars.len())].name.clone())
                }
            }
        }
    }

    // ---------------------------------------------------------------- faults

    fn maybe_fault(&mut self, ty: &Ty) -> Option<E> {
        if !self.fault_armed || self.fault.is_some() {
            return None;
        }
        if !self.t.chance(20) {
            return None;
        }
        // object-model faults when classes exist
        if self.prof.objects && !self.classes.is_empty() && self.t.chance(if self.prof.w_inherited > 4 { 170 } else { 60 }) {
            let ks: Vec<usize> = (0..self.classes.len()).filter(|k| self.obj_available(*k)).collect();
            if !ks.is_empty() {
                let k = ks[self.t.pick(ks.len())];
                let methods = self.effective_methods(k);
                let recv = self.construct(k, 1);
                let (name, e): (&str, E) = match self.t.pick(6) {
                    // a built-in reached through the parent chain, called explicitly with one
                    // argument too many / none at all: the chain does not waive the arity
                    4 if matches!(self.chain_end(k), Parent::Int) && !methods.iter().any(|(m, _)| m.name == "+") => {
                        ("builtin-via-parent-arity-plus", E::MCall(bx(recv), "+".into(), vec![E::Int(100), E::Int(2)]))
                    }
                    4 if matches!(self.chain_end(k), Parent::Bool) && !methods.iter().any(|(m, _)| m.name == "&") => {
                        ("builtin-via-parent-arity-plus", E::MCall(bx(recv), "&".into(), vec![E::Bool(true), E::Bool(true)]))
                    }
                    5 if matches!(self.chain_end(k), Parent::Int) && !methods.iter().any(|(m, _)| m.name == "-") => {
                        ("builtin-via-parent-arity-minus", E::MCall(bx(recv), "-".into(), vec![]))
                    }
                    5 if matches!(self.chain_end(k), Parent::Arr(..)) && !methods.iter().any(|(m, _)| m.name == "get") => {
                        ("builtin-via-parent-arity-plus", E::MCall(bx(recv), "get".into(), vec![E::Int(0), E::Int(0)]))
                    }
                    0 if !methods.is_empty() => {
                        let (m, _) = methods[self.t.pick(methods.len())].clone();
                        let mut args: Vec<E> = m.params.iter().map(|p| self.leaf(p)).collect();
                        args.push(E::Int(0));
                        ("method-arity-plus", E::MCall(bx(recv), m.name.clone(), args))
                    }
                    1 if methods.iter().any(|(m, _)| !m.params.is_empty()) => {
                        let (m, _) = methods.iter().find(|(m, _)| !m.params.is_empty()).unwrap().clone();
                        let mut args: Vec<E> = m.params.iter().map(|p| self.leaf(p)).collect();
                        args.pop();
                        ("method-arity-minus", E::MCall(bx(recv), m.name.clone(), args))
                    }
                    2 => ("unknown-field", E::Field(bx(recv), "nofield".into())),
                    _ => match self.chain_end(k) {
                        Parent::Null => ("unknown-method-object", E::MCall(bx(recv), "nometh".into(), vec![])),
                        _ => ("unknown-method-via-parent", E::MCall(bx(recv), "nometh".into(), vec![E::Int(1)])),
                    },
                };
                self.fault = Some(name.to_string());
                return Some(e);
            }
        }
        let kinds = 19;
        let (name, e): (&str, E) = match self.t.pick(kinds) {
            // a name that WAS declared, in a block that has ended since (all inside one more
            // block, so that the use is not at the outermost level either): read and written
            16 => {
                let n = self.unique("gone");
                ("out-of-scope-read", E::Block(vec![E::Block(vec![let_(&n, E::Int(7)), var(&n)]), var(&n)]))
            }
            17 => {
                let n = self.unique("gone");
                ("out-of-scope-write", E::Block(vec![E::Block(vec![let_(&n, E::Int(7))]), E::Assign(n, bx(E::Int(8)))]))
            }
            18 => {
                // declared in one branch of a conditional that has ended, used after it
                let n = self.unique("gone");
                ("out-of-scope-read-after-if", E::Block(vec![E::If(bx(E::Bool(true)), bx(E::Block(vec![let_(&n, E::Int(7)), E::Null])), Some(bx(E::Null))), var(&n)]))
            }
            0 => ("unknown-variable", E::Var(self.unique("nope"))),
            1 => ("unknown-function", E::Call(self.unique("nofun"), vec![E::Int(1)])),
            2 => ("unknown-method-int", mcall(E::Int(1), "nometh", vec![E::Int(2)])),
            3 => ("int-plus-bool", bin("+", E::Int(1), E::Bool(true))),
            4 => ("null-plus", bin("+", E::Null, E::Int(1))),
            5 => ("div-zero", bin("/", self.leaf(&Ty::Int), E::Int(0))),
            6 => ("mod-zero", bin("%", self.leaf(&Ty::Int), E::Int(0))),
            7 => ("negative-size", E::Array(bx(E::Int(-1)), bx(E::Int(0)))),
            8 => ("index-out-of-range", index(E::Array(bx(E::Int(2)), bx(E::Int(0))), E::Int(2))),
            9 => ("index-negative", index(E::Array(bx(E::Int(2)), bx(E::Int(0))), E::Int(-1))),
            10 => ("print-too-few", print("~ ~", vec![E::Int(1)])),
            11 => ("print-too-many", print("x", vec![E::Int(1)])),
            12 => ("field-on-int", field(E::Int(3), "f")),
            13 => ("bool-and-int", bin("&", E::Bool(true), E::Int(1))),
            14 => ("assign-unknown", E::Assign(self.unique("nope"), bx(E::Int(1)))),
            _ => {
                // arity fault on an existing function, if any
                if let Some(f) = self.funs.first().cloned() {
                    let mut args: Vec<E> = f.params.iter().map(|p| self.leaf(p)).collect();
                    args.push(E::Int(0));
                    ("function-arity", E::Call(f.name.clone(), args))
                } else {
                    ("unknown-method-null", mcall(E::Null, "m", vec![]))
                }
            }
        };
        let _ = ty;
        self.fault = Some(name.to_string());
        Some(e)
    }

    // ---------------------------------------------------------------- expressions

    pub fn expr(&mut self, ty: &Ty, d: usize) -> E {
        self.budget -= 1;
        if let Some(f) = self.maybe_fault(ty) {
            return f;
        }
        if d == 0 || self.budget <= 0 {
            return self.leaf(ty);
        }
        let p = &self.prof;
        let has_var = !self.vars_of(ty, false).is_empty();
        let has_wvar = !self.vars_of(ty, true).is_empty();
        let w_fun = if p.functions { 7 } else { 0 };
        let w_meth = if p.objects { p.w_meth } else { 0 };
        let w_field = if p.objects { p.w_field } else { 0 };
        let w_index = if p.arrays { 5 } else { 0 };
        // 0 leaf, 1 var, 2 specific, 3 if, 4 block, 5 call, 6 method, 7 let-expr, 8 assign-expr,
        // 9 field read, 10 index read, 11 field-set expr
        let weights = [
            10,
            if has_var { 12 } else { 0 },
            30,
            6,
            p.w_block / 2,
            w_fun,
            w_meth,
            3,
            if has_wvar { 3 } else { 0 },
            w_field,
            w_index,
            if p.objects { 2 } else { 0 },
        ];
        match self.t.weighted(&weights) {
            0 => self.leaf(ty),
            1 => {
                let vars = self.vars_of(ty, false);
                E::Var(vars[self.t.pick(vars.len())].name.clone())
            }
            2 => self.specific(ty, d),
            3 => {
                let c = self.expr(&Ty::Bool, d - 1);
                self.frame().cond += 1;
                let a = self.expr(ty, d - 1);
                let b = self.expr(ty, d - 1);
                self.frame().cond -= 1;
                E::If(bx(c), bx(a), Some(bx(b)))
            }
            4 => {
                let saved = self.push_scope();
                let mut items = vec![];
                let n = self.t.pick(3);
                for _ in 0..n {
                    self.stmts(&mut items, d - 1);
                }
                items.push(self.expr(ty, d - 1));
                self.pop_scope(saved);
                E::Block(items)
            }
            5 => self.fun_call(ty, d),
            6 => self.method_call(ty, d),
            7 => {
                let v = self.expr(ty, d - 1);
                let name = self.let_name();
                self.register_let(&name, ty.clone());
                E::Let(name, bx(v))
            }
            8 => {
                let vars = self.vars_of(ty, true);
                let name = vars[self.t.pick(vars.len())].name.clone();
                self.assigning.push(name.clone());
                let v = self.expr(ty, d - 1);
                self.assigning.pop();
                E::Assign(name, bx(v))
            }
            9 => self.field_read(ty, d),
            10 => self.index_read(ty, d),
            _ => self.field_set(ty, d),
        }
    }

    /// name for a `let`: a unique never-read name inside conditional regions
    fn let_name(&mut self) -> String {
        if self.conditional() {
            self.unique("u")
        } else {
            self.fresh_name()
        }
    }

    fn register_let(&mut self, name: &str, ty: Ty) {
        if !self.conditional() {
            self.define(name, ty, false);
        }
    }

    fn specific(&mut self, ty: &Ty, d: usize) -> E {
        match ty {
            Ty::Int => {
                if !self.prof.arith {
                    return self.leaf(ty);
                }
                match self.t.weighted(&[10, 6, 6, 3, 3, 3]) {
                    0 => bin("+", self.expr(&Ty::Int, d - 1), self.expr(&Ty::Int, d - 1)),
                    1 => bin("-", self.expr(&Ty::Int, d - 1), self.expr(&Ty::Int, d - 1)),
                    2 => {
                        // keep products small: one factor is a small literal
                        let l = self.expr(&Ty::Int, d - 1);
                        bin("*", l, E::Int(self.t.range(-3, 4) as i32))
                    }
                    3 => {
                        let l = self.expr(&Ty::Int, d - 1);
                        let dv = [1, 2, 3, 7, -2, -3][self.t.pick(6)];
                        bin("/", l, E::Int(dv))
                    }
                    4 => {
                        let l = self.expr(&Ty::Int, d - 1);
                        let dv = [2, 3, 5, 7, -2, -3][self.t.pick(6)];
                        bin("%", l, E::Int(dv))
                    }
                    _ => {
                        let op = ["+", "-", "*"][self.t.pick(3)];
                        let name = if self.prof.feeny_names { ["add", "sub", "mul"][self.t.pick(3)] } else { op };
                        mcall(self.expr(&Ty::Int, d - 1), name, vec![E::Int(self.t.range(-3, 4) as i32)])
                    }
                }
            }
            Ty::Bool => match self.t.weighted(&[if self.prof.arith { 10 } else { 0 }, 5, 4, 4, 1]) {
                0 => {
                    let op = ["<", "<=", ">", ">=", "==", "!="][self.t.pick(6)];
                    bin(op, self.expr(&Ty::Int, d - 1), self.expr(&Ty::Int, d - 1))
                }
                1 => {
                    let op = ["==", "!="][self.t.pick(2)];
                    let lt = self.prim_ty();
                    let rt = self.prim_ty();
                    bin(op, self.expr(&lt, d - 1), self.expr(&rt, d - 1))
                }
                2 => bin("&", self.expr(&Ty::Bool, d - 1), self.expr(&Ty::Bool, d - 1)),
                3 => bin("|", self.expr(&Ty::Bool, d - 1), self.expr(&Ty::Bool, d - 1)),
                _ => E::Bool(self.t.flag()),
            },
            Ty::Null => match self.t.weighted(&[4, 10, 2, 4, if self.prof.loops { 3 } else { 0 }]) {
                0 => E::Null,
                1 => self.print_stmt(d),
                2 => E::Block(vec![]),
                3 => {
                    let c = self.expr(&Ty::Bool, d - 1);
                    self.frame().cond += 1;
                    let b = self.expr(&Ty::Null, d - 1);
                    self.frame().cond -= 1;
                    E::If(bx(c), bx(b), None)
                }
                _ => {
                    // a loop whose condition is false from the start, or a counted loop in a block
                    if self.t.flag() {
                        self.frame().cond += 1;
                        let b = self.stmt_one(d - 1);
                        self.frame().cond -= 1;
                        E::While(bx(E::Bool(false)), bx(b))
                    } else {
                        let saved = self.push_scope();
                        let mut items = vec![];
                        self.counted_loop(&mut items, d - 1);
                        self.pop_scope(saved);
                        E::Block(items)
                    }
                }
            },
            Ty::Arr(elem, len) => {
                let size = if self.t.chance(40) && d > 1 {
                    // side effect in the size position
                    let p = self.print_stmt(1);
                    E::Block(vec![p, E::Int(*len as i32)])
                } else {
                    E::Int(*len as i32)
                };
                let compound = self.t.chance(128);
                let init = if compound {
                    self.frame().cond += 1;
                    let e = if self.prof.objects && self.t.chance(70) { self.method_call(elem, d) } else { self.expr(elem, d - 1) };
                    self.frame().cond -= 1;
                    e
                } else if self.prof.objects && self.t.chance(50) {
                    // a field read is a "simple" initializer as well: evaluated once
                    let has_field = (0..self.classes.len()).any(|k| self.obj_available(k) && self.classes[k].fields.iter().any(|(_, t)| t == &**elem));
                    if has_field {
                        self.field_read(elem, 1)
                    } else {
                        self.leaf(elem)
                    }
                } else {
                    self.leaf(elem)
                };
                E::Array(bx(size), bx(init))
            }
            Ty::Obj(k) => self.construct(*k, d),
        }
    }

    fn fun_call(&mut self, ty: &Ty, d: usize) -> E {
        let cands: Vec<FunSig> = self.funs.iter().filter(|f| &f.ret == ty).cloned().collect();
        let f = if (cands.is_empty() || self.t.chance(50)) && self.funs.len() < self.prof.max_funs && self.creating < 2 {
            self.new_function(ty.clone())
        } else if !cands.is_empty() {
            cands[self.t.pick(cands.len())].clone()
        } else {
            return self.specific(ty, d);
        };
        let mut args = vec![];
        for (i, p) in f.params.iter().enumerate() {
            if i == 0 && f.recursive {
                args.push(E::Int(self.t.pick(4) as i32));
            } else {
                args.push(self.expr(p, d - 1));
            }
        }
        E::Call(f.name.clone(), args)
    }

    fn new_function(&mut self, ret: Ty) -> FunSig {
        self.creating += 1;
        let name = loop {
            let n = if self.prof.exotic && self.t.flag() {
                format!("{}_f", EXOTIC_NAMES[self.t.pick(EXOTIC_NAMES.len())])
            } else if self.t.chance(40) {
                // a function named like a variable may be (or become) in sight
                NAMES[self.t.pick(NAMES.len())].to_string()
            } else {
                self.unique("f")
            };
            if !self.fun_names.contains(&n) {
                break n;
            }
        };
        self.fun_names.push(name.clone());
        let recursive = self.t.chance(60);
        let np = self.t.pick(4);
        let mut params: Vec<Ty> = vec![];
        let mut pnames: Vec<String> = vec![];
        if recursive {
            params.push(Ty::Int);
            pnames.push("fuel".to_string());
        }
        for _ in 0..np {
            let ty = self.random_ty(1, true);
            params.push(ty);
            let cand = NAMES[self.t.pick(NAMES.len())].to_string();
            let pn = if pnames.contains(&cand) { self.unique("p") } else { cand };
            pnames.push(pn);
        }
        let sig = FunSig { name: name.clone(), params: params.clone(), ret: ret.clone(), recursive };
        // body in a fresh frame: parameters, own locals, globals defined so far
        let scope: Vec<VarInfo> = pnames
            .iter()
            .zip(params.iter())
            .enumerate()
            .map(|(i, (n, t))| VarInfo { name: n.clone(), ty: t.clone(), ro: recursive && i == 0 })
            .collect();
        self.frames.push(FrameEnv { scopes: vec![scope], top: false, cond: 0 });
        let d = self.prof.depth.saturating_sub(1).max(1);
        let body = if recursive {
            self.frame().cond += 1;
            let base = self.expr(&ret, 1);
            // the recursive call is available only inside the guarded branch
            let rec_args: Vec<E> = params
                .iter()
                .enumerate()
                .map(|(i, p)| if i == 0 { bin("-", var("fuel"), E::Int(1)) } else { self.leaf(p) })
                .collect();
            let rec_call = E::Call(name.clone(), rec_args);
            let step = match &ret {
                Ty::Int if self.prof.arith => bin("+", self.expr(&Ty::Int, d - 1), rec_call),
                _ => {
                    let s = self.stmt_one(d - 1);
                    E::Block(vec![s, rec_call])
                }
            };
            self.frame().cond -= 1;
            E::If(bx(bin("<=", var("fuel"), E::Int(0))), bx(base), Some(bx(step)))
        } else {
            self.expr(&ret, d)
        };
        self.frames.pop();
        let def = E::Fun(name.clone(), pnames, bx(body));
        if self.t.chance(64) {
            self.hoisted.push(def);
        } else {
            self.pending.push(def);
        }
        self.funs.push(sig.clone());
        self.creating -= 1;
        sig
    }

    // ---------------------------------------------------------------- objects

    fn effective_methods(&self, k: usize) -> Vec<(MethodSig, usize)> {
        // own first, then ancestors (first found wins); second component = hops
        let mut out: Vec<(MethodSig, usize)> = vec![];
        let mut cur = Some(k);
        let mut hops = 0;
        while let Some(c) = cur {
            for m in &self.classes[c].methods {
                if !out.iter().any(|(x, _)| x.name == m.name) {
                    out.push((m.clone(), hops));
                }
            }
            cur = match self.classes[c].parent {
                Parent::Obj(j) => Some(j),
                _ => None,
            };
            hops += 1;
        }
        out
    }

    /// terminal (non-object) parent at the end of the chain
    fn chain_end(&self, k: usize) -> Parent {
        let mut cur = k;
        loop {
            match &self.classes[cur].parent {
                Parent::Obj(j) => cur = *j,
                other => return other.clone(),
            }
        }
    }

    fn new_class(&mut self) -> usize {
        self.new_class_how(false).0
    }

    /// `inline`: the object literal is generated right here in the current frame (its field
    /// initializers see the current scope) and returned as an expression; such a class has no
    /// constructor function and its instances are reachable only through variables
    fn new_class_how(&mut self, inline: bool) -> (usize, Option<E>) {
        self.creating += 1;
        let k0 = self.classes.len();
        let parent = match self.t.weighted(&[10, 4, 2, if self.prof.arrays { 4 } else { 0 }, if k0 > 0 { self.prof.w_parent_obj } else { 0 }]) {
            0 => Parent::Null,
            1 => Parent::Int,
            2 => Parent::Bool,
            3 => Parent::Arr(Ty::Int, 1 + self.t.pick(3)),
            _ => {
                let cands: Vec<usize> = (0..k0).filter(|j| self.classes[*j].ctor.is_some()).collect();
                if cands.is_empty() {
                    Parent::Null
                } else {
                    Parent::Obj(cands[self.t.pick(cands.len())])
                }
            }
        };
        let ctor_name = self.unique("mk");
        self.fun_names.push(ctor_name.clone());
        let np = if inline { 0 } else { self.t.pick(3) };
        let mut params = vec![];
        let mut pnames = vec![];
        for _ in 0..np {
            params.push(self.random_ty(1, true));
            let cand = NAMES[self.t.pick(NAMES.len())].to_string();
            let pn = if pnames.contains(&cand) { self.unique("p") } else { cand };
            pnames.push(pn);
        }
        // constructor frame (none for an inline literal: it lives in the current frame)
        let scope: Vec<VarInfo> =
            pnames.iter().zip(params.iter()).map(|(n, t)| VarInfo { name: n.clone(), ty: t.clone(), ro: false }).collect();
        if !inline {
            self.frames.push(FrameEnv { scopes: vec![scope], top: false, cond: 0 });
        }
        let d = 2;
        let parent_expr = match &parent {
            Parent::Null => None,
            Parent::Int => Some(self.expr(&Ty::Int, d)),
            Parent::Bool => Some(self.expr(&Ty::Bool, d)),
            Parent::Arr(e, n) => Some(self.expr(&Ty::Arr(Box::new(e.clone()), *n), d)),
            Parent::Obj(j) => Some(self.construct(*j, d)),
        };
        let nf = if self.prof.many_names { 8 } else { self.t.pick(5) };
        let mut fields: Vec<(String, Ty)> = vec![];
        let mut members: Vec<Member> = vec![];
        for _ in 0..nf {
            // fields and methods live in separate name spaces: now and then a field is named like
            // a method (of this object, of an ancestor, or like the built-ins `get` / `set`), which
            // must not get in the way of calling that method
            let cand = if self.t.chance(40) {
                let pool = ["m", "go", "peek", "bump", "size", "twice", "id", "get", "set"];
                pool[self.t.pick(pool.len())].to_string()
            } else {
                FIELD_NAMES[self.t.pick(FIELD_NAMES.len())].to_string()
            };
            let fname = if fields.iter().any(|(n, _)| n == &cand) { self.unique("fld") } else { cand };
            let fty = self.random_ty(2, true);
            let init = self.expr(&fty, d);
            fields.push((fname.clone(), fty));
            members.push(Member::Field(fname, init));
        }
        // nested creations above may have added classes: the index is fixed only now
        let k = self.classes.len();
        self.classes.push(Class { ctor: if inline { None } else { Some((ctor_name.clone(), params.clone())) }, fields: fields.clone(), methods: vec![], parent: parent.clone() });
        let nm = self.t.pick(4);
        for _ in 0..nm {
            let (mname, mparams): (String, Vec<Ty>) = match self.t.weighted(&[10, 5, 3, 3]) {
                0 => {
                    let n = METHOD_NAMES[self.t.pick(METHOD_NAMES.len())].to_string();
                    let np = self.t.pick(3);
                    let ps = (0..np).map(|_| self.random_ty(1, true)).collect();
                    (n, ps)
                }
                1 => {
                    let op = OPS[self.t.pick(OPS.len())].to_string();
                    (op, vec![self.prim_ty()])
                }
                2 => ("get".to_string(), vec![Ty::Int]),
                _ => ("set".to_string(), vec![Ty::Int, self.prim_ty()]),
            };
            if self.classes[k].methods.iter().any(|m| m.name == mname) {
                continue;
            }
            let ret = self.random_ty(1, true);
            let mut mpn: Vec<String> = vec![];
            for _ in 0..mparams.len() {
                let cand = NAMES[self.t.pick(NAMES.len())].to_string();
                let pn = if mpn.contains(&cand) { self.unique("p") } else { cand };
                mpn.push(pn);
            }
            let mut mscope: Vec<VarInfo> = vec![VarInfo { name: "this".to_string(), ty: Ty::Obj(k), ro: true }];
            for (n, t) in mpn.iter().zip(mparams.iter()) {
                mscope.push(VarInfo { name: n.clone(), ty: t.clone(), ro: false });
            }
            self.frames.push(FrameEnv { scopes: vec![mscope], top: false, cond: 0 });
            let body = self.expr(&ret, 3);
            self.frames.pop();
            self.classes[k].methods.push(MethodSig { name: mname.clone(), params: mparams, ret });
            members.push(Member::Method(mname, mpn, body));
        }
        // interleave members: rotate so methods are not always last
        if members.len() > 1 && self.t.chance(80) {
            let r = self.t.pick(members.len());
            members.rotate_left(r);
            // field order in the class table must follow declaration order
            let mut order = vec![];
            for m in &members {
                if let Member::Field(n, _) = m {
                    order.push(n.clone());
                }
            }
            // rotation changes evaluation order of initializers only if they have
            // side effects relative to each other; the initializers were generated in
            // the original order, so keep rotation only when no initializer defines a
            // variable another one could read: simply undo when any initializer
            // contains a let or an assignment.
            let effectful = members.iter().any(|m| match m {
                Member::Field(_, e) => has_binding_effect(e),
                _ => false,
            });
            if effectful {
                members.rotate_right(r);
            } else {
                let f2: Vec<(String, Ty)> =
                    order.iter().map(|n| fields.iter().find(|(x, _)| x == n).unwrap().clone()).collect();
                self.classes[k].fields = f2;
            }
        }
        let body = E::Object(parent_expr.map(bx), members);
        if inline {
            self.creating -= 1;
            return (k, Some(body));
        }
        self.frames.pop();
        let def = E::Fun(ctor_name, pnames, bx(body));
        if self.t.chance(48) {
            self.hoisted.push(def);
        } else {
            self.pending.push(def);
        }
        self.creating -= 1;
        (k, None)
    }

    fn method_call(&mut self, ty: &Ty, d: usize) -> E {
        // find (class, method) pairs returning ty
        let mut cands: Vec<(usize, MethodSig)> = vec![];
        for k in 0..self.classes.len() {
            if !self.obj_available(k) {
                continue;
            }
            for (m, hops) in self.effective_methods(k) {
                if &m.ret == ty {
                    let copies = if hops > 0 { self.prof.w_inherited.max(1) } else { 1 };
                    for _ in 0..copies {
                        cands.push((k, m.clone()));
                    }
                }
            }
        }
        // built-ins through a primitive/array parent
        let mut builtin: Vec<usize> = vec![];
        for k in 0..self.classes.len() {
            if !self.obj_available(k) {
                continue;
            }
            match (self.chain_end(k), ty) {
                (Parent::Int, Ty::Int) | (Parent::Int, Ty::Bool) | (Parent::Bool, Ty::Bool) => builtin.push(k),
                (Parent::Arr(e, _), t) if &e == t => builtin.push(k),
                _ => {}
            }
        }
        let total = cands.len() + builtin.len();
        if total == 0 {
            return self.specific(ty, d);
        }
        let i = self.t.pick(total);
        if i < cands.len() {
            let (k, m) = cands[i].clone();
            let recv = self.expr(&Ty::Obj(k), d - 1);
            let args: Vec<E> = m.params.iter().map(|p| self.expr(p, d - 1)).collect();
            // sugar where the method is an operator / get / set
            if is_op(&m.name) && args.len() == 1 && self.t.chance(200) {
                let mut a = args;
                return E::Bin(m.name.clone(), bx(recv), bx(a.remove(0)));
            }
            if m.name == "get" && args.len() == 1 && self.t.chance(200) {
                let mut a = args;
                return E::Index(bx(recv), bx(a.remove(0)));
            }
            E::MCall(bx(recv), m.name.clone(), args)
        } else {
            let k = builtin[i - cands.len()];
            let own: Vec<String> = self.effective_methods(k).into_iter().map(|(m, _)| m.name).collect();
            // NOTHING that was generated may be thrown away (it may contain a `let` that is
            // registered in the environment): decide first, generate the receiver afterwards
            match (self.chain_end(k), ty) {
                (Parent::Int, Ty::Int) => {
                    let ops: Vec<&str> = ["+", "-", "*"].iter().cloned().filter(|o| !own.contains(&o.to_string())).collect();
                    if ops.is_empty() {
                        return self.leaf(ty);
                    }
                    let recv = self.expr(&Ty::Obj(k), d - 1);
                    let op = ops[self.t.pick(ops.len())];
                    bin(op, recv, E::Int(self.t.range(-3, 4) as i32))
                }
                (Parent::Int, Ty::Bool) => {
                    let ops: Vec<&str> =
                        ["<", "<=", ">", ">=", "==", "!="].iter().cloned().filter(|o| !own.contains(&o.to_string())).collect();
                    if ops.is_empty() {
                        return self.leaf(ty);
                    }
                    let recv = self.expr(&Ty::Obj(k), d - 1);
                    let op = ops[self.t.pick(ops.len())];
                    bin(op, recv, self.expr(&Ty::Int, d - 1))
                }
                (Parent::Bool, Ty::Bool) => {
                    let ops: Vec<&str> = ["&", "|", "==", "!="].iter().cloned().filter(|o| !own.contains(&o.to_string())).collect();
                    if ops.is_empty() {
                        return self.leaf(ty);
                    }
                    let recv = self.expr(&Ty::Obj(k), d - 1);
                    let op = ops[self.t.pick(ops.len())];
                    bin(op, recv, self.expr(&Ty::Bool, d - 1))
                }
                (Parent::Arr(_, n), _) => {
                    if own.contains(&"get".to_string()) || n == 0 {
                        return self.leaf(ty);
                    }
                    let recv = self.expr(&Ty::Obj(k), d - 1);
                    let i = self.t.pick(n) as i32;
                    if self.t.flag() {
                        index(recv, E::Int(i))
                    } else {
                        mcall(recv, "get", vec![E::Int(i)])
                    }
                }
                _ => self.leaf(ty),
            }
        }
    }

    fn field_read(&mut self, ty: &Ty, d: usize) -> E {
        let mut cands: Vec<(usize, String)> = vec![];
        for k in 0..self.classes.len() {
            if !self.obj_available(k) {
                continue;
            }
            for (n, t) in &self.classes[k].fields {
                if t == ty {
                    cands.push((k, n.clone()));
                }
            }
        }
        if cands.is_empty() {
            return self.specific(ty, d);
        }
        let (k, f) = cands[self.t.pick(cands.len())].clone();
        let recv = self.expr(&Ty::Obj(k), d - 1);
        E::Field(bx(recv), f)
    }

    fn field_set(&mut self, ty: &Ty, d: usize) -> E {
        let mut cands: Vec<(usize, String)> = vec![];
        for k in 0..self.classes.len() {
            if !self.obj_available(k) {
                continue;
            }
            for (n, t) in &self.classes[k].fields {
                if t == ty {
                    cands.push((k, n.clone()));
                }
            }
        }
        if cands.is_empty() {
            return self.specific(ty, d);
        }
        let (k, f) = cands[self.t.pick(cands.len())].clone();
        let recv = self.expr(&Ty::Obj(k), d - 1);
        let v = self.expr(ty, d - 1);
        E::FieldSet(bx(recv), f, bx(v))
    }

    fn index_read(&mut self, ty: &Ty, d: usize) -> E {
        // an array-typed variable with this element type, else a fresh array
        let vars: Vec<VarInfo> = self
            .visible()
            .into_iter()
            .filter(|v| matches!(&v.ty, Ty::Arr(e, n) if &**e == ty && *n > 0))
            .collect();
        let (arr, n) = if !vars.is_empty() && self.t.chance(200) {
            let v = vars[self.t.pick(vars.len())].clone();
            let n = match &v.ty {
                Ty::Arr(_, n) => *n,
                _ => 1,
            };
            (E::Var(v.name), n)
        } else {
            let n = 1 + self.t.pick(3);
            (self.expr(&Ty::Arr(Box::new(ty.clone()), n), d - 1), n)
        };
        let i = self.t.pick(n) as i32;
        let idx = if self.t.chance(60) && self.prof.arith { bin("-", E::Int(i + 1), E::Int(1)) } else { E::Int(i) };
        if self.t.chance(40) {
            mcall(arr, "get", vec![idx])
        } else {
            index(arr, idx)
        }
    }

    // ---------------------------------------------------------------- statements

    fn tagged(&mut self) -> String {
        self.tag += 1;
        if self.prof.exotic {
            let mut s = String::new();
            let n = 1 + self.t.pick(3);
            for _ in 0..n {
                if self.t.chance(40) {
                    s.push_str(EXOTIC_CTRL[self.t.pick(EXOTIC_CTRL.len())]);
                } else {
                    s.push_str(EXOTIC_TEXT[self.t.pick(EXOTIC_TEXT.len())]);
                }
            }
            s
        } else {
            format!("{}:", self.tag)
        }
    }

    fn print_stmt(&mut self, d: usize) -> E {
        let n = self.t.weighted(&[2, 8, 4, 1]);
        let mut fmt = self.tagged();
        let mut args = vec![];
        for _ in 0..n {
            let ty = self.random_ty(d.min(2), false);
            args.push(self.expr(&ty, d.saturating_sub(1)));
            fmt.push_str(if self.t.chance(30) { "~" } else { " ~" });
        }
        fmt.push_str(match self.t.weighted(&[12, 1, 1, 1]) {
            0 => "\\n",
            1 => "\\t\\n",
            2 => " \\\\ \\\" \\~\\n",
            _ => "",
        });
        E::Print(fmt, args)
    }

    fn counted_loop(&mut self, out: &mut Vec<E>, d: usize) {
        let i = self.unique("i");
        let n = self.t.pick(5) as i32;
        let up = self.t.flag();
        let start = if up { 0 } else { n };
        // the counter: defined here, read-only for the body
        let cond_region = self.conditional();
        out.push(E::Let(i.clone(), bx(E::Int(start))));
        if !cond_region {
            self.define(&i, Ty::Int, true);
        }
        let cond = if up { bin("<", var(&i), E::Int(n)) } else { bin(">", var(&i), E::Int(0)) };
        let saved = self.push_scope();
        if cond_region {
            // the counter is not registered (conditional region): make it visible inside the body only
            self.frame().scopes.last_mut().unwrap().push(VarInfo { name: i.clone(), ty: Ty::Int, ro: true });
        }
        let mut body = vec![];
        let k = 1 + self.t.pick(3);
        for _ in 0..k {
            self.stmts(&mut body, d.saturating_sub(1));
        }
        self.pop_scope(saved);
        let step = if up { bin("+", var(&i), E::Int(1)) } else { bin("-", var(&i), E::Int(1)) };
        body.push(E::Assign(i.clone(), bx(step)));
        out.push(E::While(bx(cond), bx(E::Block(body))));
    }

    /// one statement as a single expression (value discarded by the caller)
    fn stmt_one(&mut self, d: usize) -> E {
        let mut v = vec![];
        self.stmts(&mut v, d);
        if v.len() == 1 {
            v.pop().unwrap()
        } else {
            // several items: they need a block; definitions made inside it were
            // registered in the enclosing scope by `stmts`, which is only sound for
            // the unique never-read names used in conditional regions - callers use
            // stmt_one only inside conditional regions or discard registrations.
            E::Block(v)
        }
    }

    /// Emits one statement (sometimes two siblings) into `out`.
    fn stmts(&mut self, out: &mut Vec<E>, d: usize) {
        self.budget -= 1;
        if self.budget <= 0 {
            out.push(self.print_stmt(0));
            return;
        }
        let p = self.prof.clone();
        let has_w = self.visible().iter().any(|v| !v.ro);
        let weights = [
            p.w_print,
            p.w_let,
            if has_w { 14 } else { 0 },
            if d > 0 { 10 } else { 0 },
            if d > 0 && p.loops { 8 } else { 0 },
            if d > 0 { p.w_block } else { 0 },
            if p.arrays { 8 } else { 0 },
            if p.objects { 6 + p.w_field / 2 } else { 0 },
            p.w_discard,
            if p.object_prologue { 16 } else { 0 },
        ];
        match self.t.weighted(&weights) {
            0 => out.push(self.print_stmt(d)),
            1 => {
                if p.objects && self.classes.len() < self.prof.max_classes + 2 && self.creating < 2 && !self.conditional() && self.t.chance(36) {
                    // an object literal written in place (not through a constructor function)
                    let (k, lit) = self.new_class_how(true);
                    let name = self.let_name();
                    self.register_let(&name, Ty::Obj(k));
                    out.push(E::Let(name, bx(lit.unwrap())));
                    return;
                }
                let ty = self.random_ty(2, false);
                let v = self.expr(&ty, d);
                let name = self.let_name();
                self.register_let(&name, ty);
                out.push(E::Let(name, bx(v)));
            }
            2 => {
                let vars: Vec<VarInfo> = self.visible().into_iter().filter(|v| !v.ro).collect();
                let v = vars[self.t.pick(vars.len())].clone();
                self.assigning.push(v.name.clone());
                let e = self.expr(&v.ty, d);
                self.assigning.pop();
                out.push(E::Assign(v.name, bx(e)));
            }
            3 => {
                let c = self.expr(&Ty::Bool, d - 1);
                self.frame().cond += 1;
                let a = self.stmt_one(d - 1);
                let b = if self.t.flag() { Some(bx(self.stmt_one(d - 1))) } else { None };
                self.frame().cond -= 1;
                out.push(E::If(bx(c), bx(a), b));
            }
            4 => {
                if self.conditional() {
                    // inside a conditional region the two siblings would leak the counter
                    // into the enclosing scope: wrap in a block
                    let saved = self.push_scope();
                    let mut items = vec![];
                    self.counted_loop(&mut items, d - 1);
                    self.pop_scope(saved);
                    out.push(E::Block(items));
                } else {
                    self.counted_loop(out, d - 1);
                }
            }
            5 => {
                let saved = self.push_scope();
                let mut items = vec![];
                let n = 1 + self.t.pick(4);
                for _ in 0..n {
                    self.stmts(&mut items, d - 1);
                }
                self.pop_scope(saved);
                out.push(E::Block(items));
            }
            6 => {
                // array element write through any place expression
                let elem = self.random_ty(1, false);
                let vars: Vec<VarInfo> =
                    self.visible().into_iter().filter(|v| matches!(&v.ty, Ty::Arr(_, n) if *n > 0)).collect();
                let (arr, ety, n) = if !vars.is_empty() && self.t.chance(210) {
                    let v = vars[self.t.pick(vars.len())].clone();
                    match v.ty.clone() {
                        Ty::Arr(e, n) => (E::Var(v.name), *e, n),
                        _ => unreachable!(),
                    }
                } else {
                    let n = 1 + self.t.pick(3);
                    (self.expr(&Ty::Arr(Box::new(elem.clone()), n), d), elem, n)
                };
                let i = E::Int(self.t.pick(n) as i32);
                let v = self.expr(&ety, d);
                if self.t.chance(40) {
                    out.push(mcall(arr, "set", vec![i, v]));
                } else {
                    out.push(E::IndexSet(bx(arr), bx(i), bx(v)));
                }
            }
            7 => {
                let ty = self.prim_ty();
                let e = self.field_set(&ty, d.max(1));
                out.push(e);
            }
            9 => {
                // mutate through one place expression, observe through another (aliases)
                let mut cands: Vec<(usize, String, Ty)> = vec![];
                for k in 0..self.classes.len() {
                    if self.vars_of(&Ty::Obj(k), false).len() >= 2 {
                        for (n, t) in &self.classes[k].fields {
                            if matches!(t, Ty::Int | Ty::Bool | Ty::Null) {
                                cands.push((k, n.clone(), t.clone()));
                            }
                        }
                    }
                }
                if cands.is_empty() {
                    out.push(self.print_stmt(d));
                } else {
                    let (k, f, ty) = cands[self.t.pick(cands.len())].clone();
                    let place = |g: &mut Gen| -> E {
                        let vars = g.vars_of(&Ty::Obj(k), false);
                        let v = E::Var(vars[g.t.pick(vars.len())].name.clone());
                        let arrs: Vec<VarInfo> = g
                            .visible()
                            .into_iter()
                            .filter(|x| matches!(&x.ty, Ty::Arr(e, n) if **e == Ty::Obj(k) && *n > 0))
                            .collect();
                        if !arrs.is_empty() && g.t.chance(70) {
                            index(E::Var(arrs[g.t.pick(arrs.len())].name.clone()), E::Int(0))
                        } else {
                            v
                        }
                    };
                    let p1 = place(self);
                    let val = self.leaf(&ty);
                    out.push(E::FieldSet(bx(p1), f.clone(), bx(val)));
                    let p2 = place(self);
                    self.tag += 1;
                    out.push(E::Print(format!("{}: ~\\n", self.tag), vec![E::Field(bx(p2), f)]));
                }
            }
            _ => {
                // expression statement: value discarded
                let ty = self.random_ty(2, false);
                let e = match self.t.weighted(&[10, 6]) {
                    0 => self.expr(&ty, d),
                    _ => self.leaf(&ty),
                };
                out.push(e);
            }
        }
    }
}

fn has_binding_effect(e: &E) -> bool {
    match e {
        E::Let(..) | E::Assign(..) | E::FieldSet(..) | E::IndexSet(..) | E::Print(..) | E::Call(..) | E::MCall(..) => true,
        _ => e.children().iter().any(|c| has_binding_effect(c)),
    }
}
