//! Domain B: structurally valid bytecode models generated directly from the tape
//! (any mix of constants, arbitrary instruction sequences with well-kinded
//! references), plus the construction of an FML `Program` from a model through
//! FML's own public constructors.

use crate::bc::model::*;
use crate::tape::Tape;

const STRS: [&str; 30] = [
    "", "x", "λ:", "main", "get", "set", "+", "==", "add", "if:consequent:0", "loop:body:1", "~ ~\\n", "ž", "日本語", "👍", "a\"b",
    "slot 3", "method #1 args:0 locals:0 0000-0001", ": ", "#", "class #1,#2", " lead", "trail ", "é\u{301}", "\u{7f}", "\t", "a,b", "::0", "∅", "0: \"x\"",
];

pub struct ModelOpts {
    /// allow raw CR/LF in strings (false for C17)
    pub line_breaks: bool,
    /// chance (of 256) of a pool with more than 256 constants
    pub big_pool: u32,
    /// chance of a method with >= 256 instructions
    pub big_method: u32,
    pub long_strings: bool,
    /// chance (of 65536) of a pool with more than 32767 constants (indices with the top bit set)
    pub huge_pool: u32,
    /// chance (of 256) of one class with 300..6000 members and, in huge pools, of a globals
    /// table with 300..3500 entries: index tables longer than any plausible read/write block
    pub wide_tables: u32,
}

impl Default for ModelOpts {
    fn default() -> Self {
        ModelOpts { line_breaks: true, big_pool: 26, big_method: 12, long_strings: true, huge_pool: 300, wide_tables: 10 }
    }
}

fn gen_string(t: &mut Tape, o: &ModelOpts) -> String {
    match t.weighted(&[12, 4, if o.long_strings { 1 } else { 0 }, if o.line_breaks { 2 } else { 0 }, 3]) {
        0 => STRS[t.pick(STRS.len())].to_string(),
        1 => {
            let n = t.pick(12);
            (0..n).map(|_| (b'a' + t.pick(26) as u8) as char).collect()
        }
        2 => {
            let n = [300usize, 1100, 9000, 70_000][t.weighted(&[4, 4, 4, 1])];
            let c = ["y", "é", "👍"][t.pick(3)];
            let mut s = String::new();
            if o.line_breaks && t.flag() {
                s.push_str("x\n");
            }
            while s.len() < n {
                s.push_str(c);
            }
            s
        }
        3 => ["a\nb", "\r\n", "line\n", "\n\nx"][t.pick(4)].to_string(),
        _ => {
            // a few arbitrary scalar values
            let n = 1 + t.pick(4);
            let mut s = String::new();
            for _ in 0..n {
                let cp = match t.pick(4) {
                    0 => t.pick(0x80) as u32,
                    1 => 0x80 + t.pick(0x780) as u32,
                    2 => 0x800 + t.pick(0xF000) as u32,
                    _ => 0x10000 + t.pick(0xFFFF) as u32 * 16,
                };
                if let Some(c) = char::from_u32(cp) {
                    if !o.line_breaks && (c == '\n' || c == '\r') {
                        continue;
                    }
                    s.push(c);
                }
            }
            s
        }
    }
}

fn gen_int(t: &mut Tape) -> i32 {
    match t.pick(4) {
        0 => t.pick(10) as i32,
        1 => [i32::MIN, i32::MAX, -1, 255, 256, 65535, 65536, -256, 0x01020304, -0x01020304][t.pick(10)],
        2 => t.range(-1000, 1000) as i32,
        _ => t.i32_any(),
    }
}

pub fn generate(t: &mut Tape, o: &ModelOpts) -> Model {
    // 1. kinds of the constants
    #[derive(Clone, Copy, PartialEq)]
    enum K {
        Int,
        Null,
        Str,
        Method,
        Slot,
        Class,
        Bool,
    }
    let huge = o.huge_pool > 0 && (((t.byte() as u32) << 8) | t.byte() as u32) < o.huge_pool;
    let big = huge || (o.big_pool > 0 && t.chance(o.big_pool));
    let n = if huge { 33_000 + t.pick(2000) } else if big { 257 + t.pick(120) } else { 3 + t.pick(30) };
    let mut kinds: Vec<K> = Vec::with_capacity(n + 4);
    // guaranteed basis so that every reference kind can be satisfied
    kinds.push(K::Str);
    kinds.push(K::Method);
    // a huge pool cannot be driven by a tape of a few hundred bytes: its bulk follows a
    // deterministic pattern salted by the tape, and only a prefix is tape-driven
    let salt = if huge { crate::tape::mix(((t.byte() as u64) << 8) | t.byte() as u64) } else { 0 };
    let bulk = if huge { n - 40 } else { 0 };
    for i in 0..bulk {
        let h = crate::tape::mix(salt ^ (i as u64).wrapping_mul(0x9E37_79B9));
        kinds.push(match h % 64 {
            0..=39 => K::Int,
            40..=43 => K::Null,
            44..=47 => K::Bool,
            48..=53 => K::Str,
            54..=59 => K::Slot,
            60..=62 => K::Class,
            _ => K::Method,
        });
    }
    for _ in 0..(n - bulk) {
        kinds.push(match t.weighted(&if huge { [200, 20, 6, 1, 8, 4, 16] } else { [6, 2, 8, if big { 1 } else { 4 }, 3, 2, 2] }) {
            0 => K::Int,
            1 => K::Null,
            2 => K::Str,
            3 => K::Method,
            4 => K::Slot,
            5 => K::Class,
            _ => K::Bool,
        });
    }
    if !kinds.iter().any(|k| matches!(k, K::Int | K::Null | K::Bool)) {
        kinds.push(K::Null);
    }
    if !kinds.contains(&K::Class) {
        kinds.push(K::Class);
    }
    // shuffle-ish: rotate so the basis is not always first
    let r = t.pick(kinds.len());
    kinds.rotate_left(r);
    let idx_of = |want: &dyn Fn(K) -> bool| -> Vec<u16> { kinds.iter().enumerate().filter(|(_, k)| want(**k)).map(|(i, _)| i as u16).collect() };
    let strs = idx_of(&|k| k == K::Str);
    let lits = idx_of(&|k| matches!(k, K::Int | K::Null | K::Bool));
    let members = idx_of(&|k| matches!(k, K::Slot | K::Method));
    let classes = idx_of(&|k| k == K::Class);
    let methods = idx_of(&|k| k == K::Method);

    let counter = std::cell::Cell::new(0u64);
    let pick = |t: &mut Tape, v: &Vec<u16>| -> u16 {
        if huge && t.exhausted() {
            // tape exhausted long ago: derive the choice from a counter, half of the time from
            // the top end of the candidates (indices with the high bit set)
            let c = counter.get();
            counter.set(c + 1);
            let h = crate::tape::mix(salt ^ c.wrapping_mul(0xD134_2543_DE82_EF95));
            let len = v.len();
            if h & 1 == 0 {
                v[len - 1 - ((h >> 8) as usize % len.min(64))]
            } else {
                v[(h >> 8) as usize % len]
            }
        } else {
            v[t.pick(v.len())]
        }
    };
    let wide = o.wide_tables > 0 && t.chance(o.wide_tables);
    let wide_salt = crate::tape::mix(0x77 ^ ((t.byte() as u64) << 8 | t.byte() as u64));
    let mut wide_class_done = false;
    let mut consts = Vec::with_capacity(kinds.len());
    let mut big_method_done = false;
    for k in kinds.iter() {
        consts.push(match k {
            K::Int => Const::Int(gen_int(t)),
            K::Null => Const::Null,
            K::Bool => Const::Bool(t.flag()),
            K::Str => Const::Str(gen_string(t, o)),
            K::Slot => Const::Slot(pick(t, &strs)),
            K::Class if wide && !wide_class_done => {
                // one class whose member table alone is 0.6..12 KB (members may repeat: the
                // format does not care, only object creation does)
                wide_class_done = true;
                let m = [300usize, 1000, 2048, 3000, 4100, 6000][(wide_salt % 6) as usize];
                Const::Class((0..m).map(|i| members[(crate::tape::mix(wide_salt ^ i as u64) % members.len() as u64) as usize]).collect())
            }
            K::Class => {
                let m = t.weighted(&[2, 4, 3, 2, 1, 1]);
                Const::Class((0..m).map(|_| pick(t, &members)).collect())
            }
            K::Method => {
                let len = if !big_method_done && o.big_method > 0 && t.chance(o.big_method) {
                    big_method_done = true;
                    if t.chance(40) {
                        10_050
                    } else {
                        256 + t.pick(100)
                    }
                } else {
                    t.weighted(&[1, 2, 2, 2, 2, 1, 1, 1, 1, 1, 1, 1, 1]) * (1 + t.pick(3))
                };
                let mut code = Vec::with_capacity(len);
                if huge && t.exhausted() {
                    // bulk methods of a huge pool: a little code whose operands are large indices
                    code.push(Ins::Lit(pick(t, &lits)));
                    code.push(Ins::Drop);
                    code.push(Ins::GetGlobal(pick(t, &strs)));
                    code.push(Ins::Return);
                }
                for _ in 0..len {
                    code.push(match t.pick(17) {
                        0 => Ins::Label(pick(t, &strs)),
                        1 => Ins::Lit(pick(t, &lits)),
                        2 => Ins::Print(pick(t, &strs), t.pick(4) as u8),
                        3 => Ins::Array,
                        4 => Ins::Object(pick(t, &classes)),
                        5 => Ins::GetSlot(pick(t, &strs)),
                        6 => Ins::SetSlot(pick(t, &strs)),
                        7 => Ins::CallSlot(pick(t, &strs), if t.chance(8) { 255 } else { t.pick(4) as u8 }),
                        8 => Ins::Call(pick(t, &strs), if t.chance(8) { 255 } else { t.pick(4) as u8 }),
                        9 => Ins::SetLocal(if t.chance(16) { 0xFFFF } else { t.pick(6) as u16 }),
                        10 => Ins::GetLocal(if t.chance(16) { 0x0102 } else { t.pick(6) as u16 }),
                        11 => Ins::SetGlobal(pick(t, &strs)),
                        12 => Ins::GetGlobal(pick(t, &strs)),
                        13 => Ins::Branch(pick(t, &strs)),
                        14 => Ins::Goto(pick(t, &strs)),
                        15 => Ins::Return,
                        _ => Ins::Drop,
                    });
                }
                // most methods end in `return`, so that no execution falls off a method's end
                if t.chance(205) {
                    code.push(Ins::Return);
                }
                Const::Method {
                    name: pick(t, &strs),
                    nargs: if t.chance(10) { 255 } else { t.pick(4) as u8 },
                    nlocals: if t.chance(10) { 0x0203 } else { t.pick(5) as u16 },
                    code,
                }
            }
        });
    }
    let ng = t.pick(6);
    let mut globals: Vec<u16> = vec![];
    if wide && members.len() >= 300 {
        // a long globals table (entries must be distinct): a stretch of the available members
        let want = [300usize, 2048, 3500][((wide_salt >> 8) % 3) as usize].min(members.len());
        let start = (wide_salt >> 16) as usize % (members.len() - want + 1);
        globals.extend_from_slice(&members[start..start + want]);
    }
    for _ in 0..ng {
        let g = pick(t, &members);
        if !globals.contains(&g) {
            globals.push(g);
        }
    }
    let entry = pick(t, &methods);
    Model { consts, globals, entry }
}

/// Is it safe to execute this model under a small fuel (no giant allocation)?
pub fn safe_to_run(m: &Model) -> bool {
    let has_array = m.consts.iter().any(|c| matches!(c, Const::Method { code, .. } if code.iter().any(|i| matches!(i, Ins::Array))));
    let big_int = m.consts.iter().any(|c| matches!(c, Const::Int(v) if *v > 5000));
    !(has_array && big_int)
}

/// No method can fall off its end into whatever the code vector holds next (the
/// meaning of such a program would depend on the in-memory layout).
pub fn no_fallthrough(m: &Model) -> bool {
    let ends = m.consts.iter().all(|c| match c {
        Const::Method { code, .. } => matches!(code.last(), Some(Ins::Return) | Some(Ins::Goto(_))),
        _ => true,
    });
    // a label name defined twice resolves to whichever definition the layout puts last
    let mut names = std::collections::BTreeSet::new();
    let mut unique = true;
    for c in &m.consts {
        if let Const::Method { code, .. } = c {
            for i in code {
                if let Ins::Label(n) = i {
                    if let Some(s) = m.str_at(*n) {
                        if !names.insert(s.to_string()) {
                            unique = false;
                        }
                    }
                }
            }
        }
    }
    ends && unique
}

// ------------------------------------------------------------------ FML Program from a model

use crate::bytecode::bytecode::OpCode;
use crate::bytecode::program::*;

pub fn opcode_of(i: &Ins) -> OpCode {
    let c = ConstantPoolIndex::new;
    match i {
        Ins::Label(n) => OpCode::Label { name: c(*n) },
        Ins::Lit(n) => OpCode::Literal { index: c(*n) },
        Ins::Print(f, k) => OpCode::Print { format: c(*f), arguments: Arity::new(*k) },
        Ins::Array => OpCode::Array,
        Ins::Object(n) => OpCode::Object { class: c(*n) },
        Ins::GetSlot(n) => OpCode::GetField { name: c(*n) },
        Ins::SetSlot(n) => OpCode::SetField { name: c(*n) },
        Ins::CallSlot(n, k) => OpCode::CallMethod { name: c(*n), arguments: Arity::new(*k) },
        Ins::Call(n, k) => OpCode::CallFunction { name: c(*n), arguments: Arity::new(*k) },
        Ins::SetLocal(n) => OpCode::SetLocal { index: LocalFrameIndex::new(*n) },
        Ins::GetLocal(n) => OpCode::GetLocal { index: LocalFrameIndex::new(*n) },
        Ins::SetGlobal(n) => OpCode::SetGlobal { name: c(*n) },
        Ins::GetGlobal(n) => OpCode::GetGlobal { name: c(*n) },
        Ins::Branch(n) => OpCode::Branch { label: c(*n) },
        Ins::Goto(n) => OpCode::Jump { label: c(*n) },
        Ins::Return => OpCode::Return,
        Ins::Drop => OpCode::Drop,
    }
}

/// Build through `Program::from(Code, ConstantPool, Globals, Entry)`.
/// `reverse_layout`: lay the methods' code out in reverse pool order, so that a
/// save/load cycle has to move every method.
pub fn build_program(m: &Model, reverse_layout: bool) -> Result<Program, String> {
    crate::fmlrun::guarded(|| -> Result<Program, String> {
        let mut order: Vec<usize> = m.consts.iter().enumerate().filter(|(_, c)| matches!(c, Const::Method { .. })).map(|(i, _)| i).collect();
        if reverse_layout {
            order.reverse();
        }
        let mut ops: Vec<OpCode> = vec![];
        let mut range: std::collections::BTreeMap<usize, (usize, usize)> = std::collections::BTreeMap::new();
        for i in order {
            if let Const::Method { code, .. } = &m.consts[i] {
                range.insert(i, (ops.len(), code.len()));
                ops.extend(code.iter().map(opcode_of));
            }
        }
        let pool: Vec<ProgramObject> = m
            .consts
            .iter()
            .enumerate()
            .map(|(i, c)| match c {
                Const::Int(v) => ProgramObject::Integer(*v),
                Const::Null => ProgramObject::Null,
                Const::Bool(b) => ProgramObject::Boolean(*b),
                Const::Str(s) => ProgramObject::String(s.clone()),
                Const::Slot(n) => ProgramObject::Slot { name: ConstantPoolIndex::new(*n) },
                Const::Class(v) => ProgramObject::Class(v.iter().map(|x| ConstantPoolIndex::new(*x)).collect()),
                Const::Method { name, nargs, nlocals, .. } => {
                    let (s, l) = range[&i];
                    ProgramObject::Method {
                        name: ConstantPoolIndex::new(*name),
                        parameters: Arity::new(*nargs),
                        locals: Size::new(*nlocals),
                        code: AddressRange::from(s, l),
                    }
                }
            })
            .collect();
        Program::from(
            Code::from(ops),
            ConstantPool::from(pool),
            Globals::from(m.globals.iter().map(|g| ConstantPoolIndex::new(*g)).collect::<Vec<_>>()),
            Entry::from(ConstantPoolIndex::new(m.entry)),
        )
        .map_err(|e| format!("{:#}", e))
    })?
}
