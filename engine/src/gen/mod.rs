pub mod ast;
pub mod choose;
pub mod limits;
pub mod model;
pub mod prog;
pub mod scale;
