pub mod ast;
pub mod model;
pub mod prog;
