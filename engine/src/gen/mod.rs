pub mod model;
pub mod prog;
