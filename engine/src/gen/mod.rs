pub mod prog;
