//! Choice sources: a tape (random) or a script (systematic enumeration of all
//! choice sequences by depth-first odometer).

use crate::tape::Tape;

pub trait Choose {
    fn pick(&mut self, n: usize) -> usize;
    fn flag(&mut self) -> bool {
        self.pick(2) == 1
    }
}

impl<'a> Choose for Tape<'a> {
    fn pick(&mut self, n: usize) -> usize {
        Tape::pick(self, n)
    }
}

pub struct Script {
    pub script: Vec<usize>,
    pos: usize,
    pub arities: Vec<usize>,
}

impl Script {
    pub fn new(script: Vec<usize>) -> Script {
        Script { script, pos: 0, arities: vec![] }
    }
    /// the next script in depth-first order, or None when the space is exhausted
    pub fn next(&self) -> Option<Vec<usize>> {
        let mut s: Vec<usize> = (0..self.arities.len()).map(|i| self.script.get(i).copied().unwrap_or(0)).collect();
        let mut i = s.len();
        while i > 0 {
            i -= 1;
            if s[i] + 1 < self.arities[i] {
                s[i] += 1;
                s.truncate(i + 1);
                return Some(s);
            }
        }
        None
    }
}

impl Choose for Script {
    fn pick(&mut self, n: usize) -> usize {
        let n = n.max(1);
        let v = self.script.get(self.pos).copied().unwrap_or(0).min(n - 1);
        self.arities.push(n);
        self.pos += 1;
        v
    }
}
