//! Untyped generator over the parser's whole range (C07): every node kind,
//! postfix chains, nested conditionals with and without else, objects with
//! operator / print / get / set members, negative literals.

use crate::ir::*;
use crate::tape::Tape;

const IDS: [&str; 16] = ["a", "b", "c", "x", "y", "foo", "this", "_", "_1", "x_y", "A9", "beginx", "iff", "nulll", "printer", "e5"];
const FMTS: [&str; 20] = [
    "", "~", "a ~ b\\n", "\\\\ \\\" \\~ \\t \\r", "ž 👍", "x\ny", "  ", "/* no comment */", "// neither", "~~",
    // escapes at the very ends of the literal, where the delimiters are
    "\\\"", "say \\\"hi\\\"", "\\\"\\\"", "\\\"x", "x\\\\", "\\\\", "\\\\\\\"", "\\~", "tail \\n", "\\\" \\\\ \\\"",
];

pub struct AstGen<'t, 'a> {
    pub t: &'t mut Tape<'a>,
    pub budget: isize,
}

impl<'t, 'a> AstGen<'t, 'a> {
    fn id(&mut self) -> String {
        IDS[self.t.pick(IDS.len())].to_string()
    }
    fn ids(&mut self, max: usize) -> Vec<String> {
        let n = self.t.pick(max + 1);
        (0..n).map(|_| self.id()).collect()
    }
    fn args(&mut self, d: usize, max: usize) -> Vec<E> {
        let n = self.t.pick(max + 1);
        (0..n).map(|_| self.expr(d)).collect()
    }
    fn leaf(&mut self) -> E {
        match self.t.pick(5) {
            0 => E::Int(self.t.pick(10) as i32),
            1 => E::Var(self.id()),
            2 => E::Bool(self.t.flag()),
            3 => E::Null,
            _ => E::Int(match self.t.pick(4) {
                0 => -1,
                1 => i32::MIN,
                2 => i32::MAX,
                _ => -(self.t.pick(100) as i32),
            }),
        }
    }
    pub fn expr(&mut self, d: usize) -> E {
        self.budget -= 1;
        if d == 0 || self.budget <= 0 {
            return self.leaf();
        }
        let d1 = d - 1;
        match self.t.weighted(&[6, 14, 3, 3, 3, 5, 3, 3, 4, 3, 2, 3, 2, 3, 4, 4, 3]) {
            0 => self.leaf(),
            1 => {
                let op = OPS[self.t.pick(OPS.len())];
                bin(op, self.expr(d1), self.expr(d1))
            }
            2 => E::Let(self.id(), bx(self.expr(d1))),
            3 => E::Assign(self.id(), bx(self.expr(d1))),
            4 => {
                let n = self.t.pick(4);
                E::Block((0..n).map(|_| self.expr(d1)).collect())
            }
            5 => {
                let c = self.expr(d1);
                let t = self.expr(d1);
                let e = if self.t.flag() { Some(bx(self.expr(d1))) } else { None };
                E::If(bx(c), bx(t), e)
            }
            6 => E::While(bx(self.expr(d1)), bx(self.expr(d1))),
            7 => E::Array(bx(self.expr(d1)), bx(self.expr(d1))),
            8 => E::Index(bx(self.expr(d1)), bx(self.expr(d1))),
            9 => E::IndexSet(bx(self.expr(d1)), bx(self.expr(d1)), bx(self.expr(d1))),
            10 => {
                let parent = if self.t.flag() { Some(bx(self.expr(d1))) } else { None };
                let n = self.t.pick(4);
                let mut ms = vec![];
                for _ in 0..n {
                    ms.push(match self.t.pick(3) {
                        0 => Member::Field(self.id(), self.expr(d1)),
                        1 => {
                            let name = match self.t.pick(4) {
                                0 => "print".to_string(),
                                1 => "get".to_string(),
                                2 => "set".to_string(),
                                _ => self.id(),
                            };
                            Member::Method(name, self.ids(3), self.expr(d1))
                        }
                        _ => Member::Method(OPS[self.t.pick(OPS.len())].to_string(), self.ids(2), self.expr(d1)),
                    });
                }
                E::Object(parent, ms)
            }
            11 => E::Field(bx(self.expr(d1)), self.id()),
            12 => E::FieldSet(bx(self.expr(d1)), self.id(), bx(self.expr(d1))),
            13 => E::Call(self.id(), self.args(d1, 3)),
            14 => {
                let name = match self.t.pick(5) {
                    0 => "print".to_string(),
                    1 => OPS[self.t.pick(OPS.len())].to_string(),
                    _ => self.id(),
                };
                E::MCall(bx(self.expr(d1)), name, self.args(d1, 3))
            }
            15 => E::Print(FMTS[self.t.pick(FMTS.len())].to_string(), self.args(d1, 3)),
            _ => {
                // a postfix chain a.b[i].m(x)[j].c
                let mut e = self.leaf();
                let n = 2 + self.t.pick(4);
                for _ in 0..n {
                    e = match self.t.pick(3) {
                        0 => E::Field(bx(e), self.id()),
                        1 => E::Index(bx(e), bx(self.expr(d1.min(1)))),
                        _ => E::MCall(bx(e), self.id(), self.args(d1.min(1), 2)),
                    };
                }
                e
            }
        }
    }
    pub fn program(&mut self, d: usize) -> Prog {
        let n = 1 + self.t.pick(4);
        let mut p = vec![];
        for _ in 0..n {
            if self.t.chance(40) {
                let name = if self.t.chance(30) { "print".to_string() } else { self.id() };
                p.push(E::Fun(name, self.ids(3), bx(self.expr(d))));
            } else {
                p.push(self.expr(d));
            }
        }
        p
    }
}

pub fn generate(t: &mut Tape) -> Prog {
    let mut g = AstGen { t, budget: 60 };
    g.program(4)
}

/// number of binary operators with different precedence levels, postfix chain length,
/// dangling-else shapes: used for the non-triviality rule
pub fn features(p: &Prog) -> (usize, usize, bool) {
    fn walk(e: &E, levels: &mut std::collections::BTreeSet<u8>, chain: &mut usize, dangling: &mut bool) {
        match e {
            E::Bin(op, ..) => {
                levels.insert(prec(op));
            }
            E::If(_, t, Some(_)) => {
                fn ends_open(e: &E) -> bool {
                    match e {
                        E::If(_, _, None) => true,
                        E::If(_, _, Some(x)) => ends_open(x),
                        E::While(_, b) => ends_open(b),
                        E::Let(_, v) | E::Assign(_, v) | E::FieldSet(_, _, v) | E::IndexSet(_, _, v) => ends_open(v),
                        _ => false,
                    }
                }
                if ends_open(t) {
                    *dangling = true;
                }
            }
            _ => {}
        }
        fn postfix_len(e: &E) -> usize {
            match e {
                E::Field(o, _) | E::Index(o, _) | E::MCall(o, _, _) => 1 + postfix_len(o),
                _ => 0,
            }
        }
        *chain = (*chain).max(postfix_len(e));
        for c in e.children() {
            walk(c, levels, chain, dangling);
        }
    }
    let mut levels = std::collections::BTreeSet::new();
    let mut chain = 0;
    let mut dangling = false;
    for e in p {
        walk(e, &mut levels, &mut chain, &mut dangling);
    }
    (levels.len(), chain, dangling)
}
