//! Fixed "scale" programs: sizes that cross representation boundaries (more than
//! 256 locals, globals, labels, constants, members; long argument lists; long
//! strings; big arrays).  Random generation practically never reaches them, so
//! they are enumerated as fixed cases of C01, C02 and C05.

use crate::ir::*;

fn sum_print(names: &[String], tag: &str) -> E {
    // print a few of them and a running combination of all of them
    let mut acc = E::Int(0);
    for n in names {
        acc = bin("+", acc, var(n));
    }
    let first = names.first().cloned().unwrap_or_default();
    let mid = names.get(names.len() / 2).cloned().unwrap_or_default();
    let last = names.last().cloned().unwrap_or_default();
    print(&format!("{} ~ ~ ~ ~\\n", tag), vec![var(&first), var(&mid), var(&last), acc])
}

pub fn programs() -> Vec<(&'static str, Prog)> {
    let mut out: Vec<(&'static str, Prog)> = vec![];
    // 1. 300 locals in one function frame (and the same in a method)
    {
        let names: Vec<String> = (0..300).map(|i| format!("v{}", i)).collect();
        let mut body: Vec<E> = names.iter().enumerate().map(|(i, n)| let_(n, E::Int(i as i32 * 3 + 1))).collect();
        body.push(assign("v299", bin("+", var("v257"), var("v1"))));
        body.push(sum_print(&names, "locals"));
        let f = E::Fun("wide".into(), vec!["p".into()], bx(E::Block(body.clone())));
        let o = let_("host", E::Object(None, vec![Member::Method("wide".into(), vec!["p".into()], E::Block(body))]));
        out.push(("300-locals", vec![f, call("wide", vec![E::Int(1)]), o, mcall(var("host"), "wide", vec![E::Int(2)])]));
    }
    // 2. 300 globals, read from a function too
    {
        let names: Vec<String> = (0..300).map(|i| format!("g{}", i)).collect();
        let mut p: Prog = names.iter().enumerate().map(|(i, n)| let_(n, E::Int(i as i32 - 150))).collect();
        p.push(E::Fun("peek".into(), vec![], bx(bin("+", var("g0"), bin("+", var("g256"), var("g299"))))));
        p.push(assign("g256", E::Int(7)));
        p.push(sum_print(&names, "globals"));
        p.push(print("peek ~\\n", vec![call("peek", vec![])]));
        out.push(("300-globals", p));
    }
    // 3. 300 conditionals and 40 loops: more than 256 labels, in the entry and in a function
    {
        let mut body: Vec<E> = vec![let_("acc", E::Int(0))];
        for i in 0..300 {
            body.push(E::If(
                bx(bin("==", bin("%", E::Int(i), E::Int(3)), E::Int(0))),
                bx(assign("acc", bin("+", var("acc"), E::Int(i)))),
                if i % 2 == 0 { Some(bx(assign("acc", bin("-", var("acc"), E::Int(1))))) } else { None },
            ));
        }
        for i in 0..40 {
            let c = format!("c{}", i);
            body.push(let_(&c, E::Int(0)));
            body.push(E::While(bx(bin("<", var(&c), E::Int(2))), bx(E::Block(vec![assign("acc", bin("+", var("acc"), E::Int(1))), assign(&c, bin("+", var(&c), E::Int(1)))]))));
        }
        body.push(print("labels ~\\n", vec![var("acc")]));
        let mut p = body.clone();
        p.push(E::Fun("many".into(), vec![], bx(E::Block(body))));
        p.push(call("many", vec![]));
        out.push(("340-label-groups", p));
    }
    // 4. 400 distinct integer constants and 300 distinct format strings
    {
        let mut p: Prog = vec![let_("s", E::Int(0))];
        for i in 0..400 {
            p.push(assign("s", bin("+", var("s"), E::Int(1000 + i * 7))));
        }
        for i in 0..300 {
            p.push(print(&format!("k{} ", i), vec![]));
        }
        p.push(print("\\nconstants ~\\n", vec![var("s")]));
        out.push(("700-constants", p));
    }
    // 5. long argument lists: function, method, print with 40 arguments
    {
        let ps: Vec<String> = (0..40).map(|i| format!("a{}", i)).collect();
        let args: Vec<E> = (0..40).map(|i| E::Int(i * i)).collect();
        let fmt = format!("{}\\n", vec!["~"; 40].join(" "));
        let body = print(&fmt, ps.iter().map(|n| var(n)).collect());
        let p: Prog = vec![
            E::Fun("many_args".into(), ps.clone(), bx(body.clone())),
            call("many_args", args.clone()),
            let_("o", E::Object(None, vec![Member::Method("m".into(), ps.clone(), body)])),
            mcall(var("o"), "m", args.clone()),
            print(&fmt, args),
        ];
        out.push(("40-arguments", p));
    }
    // 6. an object with 120 fields and 120 methods (class with > 256... members is not legal
    //    in one u16-counted class only beyond 65535, so 240 is well inside)
    {
        let mut ms: Vec<Member> = vec![];
        for i in 0..120 {
            ms.push(Member::Field(format!("f{}", i), E::Int(i)));
            ms.push(Member::Method(format!("m{}", i), vec![], bin("+", field(var("this"), &format!("f{}", i)), E::Int(1000))));
        }
        let p: Prog = vec![
            let_("big", E::Object(None, ms)),
            print("~ ~ ~\\n", vec![mcall(var("big"), "m0", vec![]), mcall(var("big"), "m77", vec![]), mcall(var("big"), "m119", vec![])]),
            E::FieldSet(bx(var("big")), "f119".into(), bx(E::Int(-5))),
            print("~\\n", vec![var("big")]),
        ];
        out.push(("240-members", p));
    }
    // 7. 60 nested blocks, each shadowing the same name; the value comes back out
    {
        let mut inner: E = print("inner ~\\n", vec![var("x")]);
        for i in 0..60 {
            inner = E::Block(vec![let_("x", bin("+", var("x"), E::Int(1))), inner, if i % 7 == 0 { print("lvl ~\\n", vec![var("x")]) } else { var("x") }]);
        }
        out.push(("60-nested-shadowing-blocks", vec![let_("x", E::Int(0)), inner, print("outer ~\\n", vec![var("x")])]));
    }
    // 8. long string constants
    {
        let long: String = std::iter::repeat("abcdefghij").take(700).collect();
        out.push(("7000-char-format", vec![print(&format!("{}~{}\\n", long, long), vec![E::Int(1)])]));
    }
    // 9. big arrays: 1000 elements, compound initializer with a counter, printed and summed
    {
        let p: Prog = vec![
            let_("n", E::Int(0)),
            let_("a", E::Array(bx(E::Int(1000)), bx(assign("n", bin("+", var("n"), E::Int(1)))))),
            let_("i", E::Int(0)),
            let_("s", E::Int(0)),
            E::While(bx(bin("<", var("i"), E::Int(1000))), bx(E::Block(vec![assign("s", bin("+", var("s"), index(var("a"), var("i")))), assign("i", bin("+", var("i"), E::Int(1)))]))),
            print("~ ~ ~ ~\\n", vec![index(var("a"), E::Int(0)), index(var("a"), E::Int(999)), var("s"), var("n")]),
            print("~\\n", vec![E::Array(bx(E::Int(300)), bx(E::Int(7)))]),
        ];
        out.push(("1000-element-arrays", p));
    }
    // 10. 30 functions calling each other in a chain, 30 deep, with locals at every level
    {
        let mut p: Prog = vec![];
        for i in 0..30 {
            let body = if i == 29 {
                bin("+", var("a"), E::Int(1))
            } else {
                E::Block(vec![let_("loc", bin("*", var("a"), E::Int(2))), let_("r", call(&format!("f{}", i + 1), vec![bin("+", var("a"), E::Int(1))])), bin("+", bin("-", var("r"), var("loc")), var("a"))])
            };
            p.push(E::Fun(format!("f{}", i), vec!["a".into()], bx(body)));
        }
        p.push(print("chain ~\\n", vec![call("f0", vec![E::Int(1)])]));
        out.push(("30-function-chain", p));
    }
    out
}

/// `n` blocks one after the other in ONE frame (0 = top level, 1 = function body, 2 = method
/// body), each with a variable of its own; the first one shadows `a`, later ones read and assign
/// the outer `a`.  Scope bookkeeping that is narrower than the number of blocks in a frame, or
/// that reuses an identifier of a closed block, shows as a wrong value.
pub fn many_scopes(n: usize, frame: usize) -> Prog {
    let mut body: Vec<E> = vec![let_("a", E::Int(1))];
    body.push(E::Block(vec![let_("a", E::Int(100)), let_("b", E::Int(7)), print("in ~ ~\\n", vec![var("a"), var("b")])]));
    for i in 0..n.saturating_sub(6) {
        let f = format!("f{}", i);
        body.push(E::Block(vec![let_(&f, E::Int(i as i32)), var(&f)]));
        if i == n / 2 {
            // half-way: the outer variable is still the one in sight
            body.push(E::Block(vec![print("mid ~\\n", vec![var("a")])]));
        }
    }
    body.push(E::Block(vec![print("late ~\\n", vec![var("a")])]));
    body.push(E::Block(vec![assign("a", E::Int(5))]));
    body.push(print("after ~\\n", vec![var("a")]));
    body.push(E::Block(vec![let_("a", E::Int(9)), E::Block(vec![print("inner ~\\n", vec![var("a")])])]));
    body.push(print("end ~\\n", vec![var("a")]));
    match frame {
        0 => body,
        1 => vec![E::Fun("host".into(), vec!["p".into()], bx(E::Block(body))), call("host", vec![E::Int(0)])],
        _ => vec![
            let_("holder", E::Object(None, vec![Member::Method("host".into(), vec!["p".into()], E::Block(body))])),
            mcall(var("holder"), "host", vec![E::Int(0)]),
        ],
    }
}

pub const MANY_SCOPES: [usize; 10] = [60, 200, 254, 255, 256, 257, 258, 300, 513, 1000];

/// Long-running / long-coded programs: counts beyond 65535 where the bytecode format or the VM
/// keeps an address, an index or a counter (code addresses, label targets far into the code,
/// loop iterations, heap objects, call depth).  They need far more reference fuel than the
/// default, so callers raise it for these cases only.
pub fn long_programs() -> Vec<(&'static str, Prog)> {
    let mut out: Vec<(&'static str, Prog)> = vec![];
    // 1. a code vector of about 10^5 instructions with control flow at its far end: a
    //    conditional, a loop, and a function defined and called behind address 65535
    {
        let mut p: Prog = vec![let_("acc", E::Int(0))];
        for i in 0..24_000 {
            p.push(assign("acc", bin("+", var("acc"), E::Int(i % 50))));
        }
        p.push(E::If(bx(bin(">", var("acc"), E::Int(0))), bx(print("far-then ~\\n", vec![var("acc")])), Some(bx(print("far-else\\n", vec![])))));
        p.push(let_("k", E::Int(0)));
        p.push(E::While(bx(bin("<", var("k"), E::Int(3))), bx(E::Block(vec![print("far-loop ~\\n", vec![var("k")]), assign("k", bin("+", var("k"), E::Int(1)))]))));
        p.push(E::Fun("farfn".into(), vec!["q".into()], bx(E::If(bx(bin("==", var("q"), E::Int(0))), bx(E::Int(7)), Some(bx(call("farfn", vec![bin("-", var("q"), E::Int(1))])))))));
        p.push(print("far-call ~\\n", vec![call("farfn", vec![E::Int(3)])]));
        out.push(("100k-instructions", p));
    }
    // 2. the same amount of code inside one function (one method constant of ~10^5 instructions)
    {
        let mut body: Vec<E> = vec![let_("acc", E::Int(0))];
        for i in 0..24_000 {
            body.push(assign("acc", bin("+", var("acc"), E::Int(i % 50))));
        }
        body.push(E::If(bx(bin(">", var("acc"), E::Int(0))), bx(var("acc")), Some(bx(E::Int(-1)))));
        out.push(("100k-instruction-function", vec![E::Fun("big".into(), vec![], bx(E::Block(body))), print("big ~\\n", vec![call("big", vec![])])]));
    }
    // 3. 70000 loop iterations with arithmetic that passes 2^31
    {
        let p: Prog = vec![
            let_("i", E::Int(0)),
            let_("s", E::Int(0)),
            E::While(bx(bin("<", var("i"), E::Int(70_000))), bx(E::Block(vec![assign("s", bin("+", var("s"), bin("*", var("i"), E::Int(7)))), assign("i", bin("+", var("i"), E::Int(1)))]))),
            print("loop ~ ~\\n", vec![var("i"), var("s")]),
        ];
        out.push(("70000-iterations", p));
    }
    // 4. 70000 heap objects alive at once, the first and the last still reachable and distinct
    {
        let p: Prog = vec![
            let_("first", E::Object(None, vec![Member::Field("n".into(), E::Int(-1))])),
            let_("last", var("first")),
            let_("keep", E::Array(bx(E::Int(70_000)), bx(E::Null))),
            let_("i", E::Int(0)),
            E::While(
                bx(bin("<", var("i"), E::Int(70_000))),
                bx(E::Block(vec![
                    assign("last", E::Object(None, vec![Member::Field("n".into(), var("i"))])),
                    E::IndexSet(bx(var("keep")), bx(var("i")), bx(var("last"))),
                    assign("i", bin("+", var("i"), E::Int(1))),
                ])),
            ),
            print("heap ~ ~ ~ ~\\n", vec![field(var("first"), "n"), field(var("last"), "n"), field(index(var("keep"), E::Int(65_535)), "n"), field(index(var("keep"), E::Int(65_536)), "n")]),
        ];
        out.push(("70000-objects", p));
    }
    // 5. recursion 2400 deep (as deep as the reference interpreter goes; C10 has 10^5)
    {
        let f = E::Fun("down".into(), vec!["n".into()], bx(E::If(bx(bin("==", var("n"), E::Int(0))), bx(E::Int(0)), Some(bx(bin("+", E::Int(1), call("down", vec![bin("-", var("n"), E::Int(1))])))))));
        out.push(("2400-deep-recursion", vec![f, print("depth ~\\n", vec![call("down", vec![E::Int(2_400)])])]));
    }
    out
}

