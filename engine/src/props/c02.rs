//! C02 — every compiled program is well-formed, operand-stack-balanced bytecode.

use crate::bc::{project, reader, validate};
use crate::fmlrun;
use crate::gen::prog::{generate, Profile};
use crate::harness::*;
use crate::ir::*;
use crate::render;
use crate::tape::Tape;
use serde_json::{json, Value};

pub struct C02;

fn entry_end(prog: &Prog) -> i64 {
    match prog.last() {
        Some(E::Fun(..)) => 0,
        _ => 1,
    }
}

pub fn judge_source(prog: &Prog, ctx: &mut Ctx, origin: &str) -> Judged {
    ctx.eval();
    let src = render::text(prog, render::Style::Minimal);
    let case = || json!({"source": render::pretty(prog), "ir": serde_json::to_value(prog).unwrap(), "origin": origin});
    let ast = match fmlrun::parse(&src) {
        Ok(a) => a,
        Err(e) => return ctx.settle(Violation::new("parse-rejected", e, case())),
    };
    // a limit program sits on a width of the format: the compiler or the serializer may refuse
    // it (C11 checks that every build does so alike); only what is emitted is judged
    let may_be_refused = origin.starts_with("limit:");
    let program = match fmlrun::compile(&ast) {
        Ok(p) => p,
        Err(_) if may_be_refused => {
            ctx.label("limit-program-refused");
            return Ok(());
        }
        Err(e) => return ctx.settle(Violation::new("compile-rejected", e, case())),
    };
    let bytes = match fmlrun::serialize(&program) {
        Ok(b) => b,
        Err(_) if may_be_refused => {
            ctx.label("limit-program-refused-by-serializer");
            return Ok(());
        }
        Err(e) => return ctx.settle(Violation::new("serialize-failed", e, case())),
    };
    let model = match reader::read(&bytes) {
        Ok(m) => m,
        Err(e) => {
            return ctx.settle(Violation::new("unreadable-bytecode", format!("independent reader rejects the compiler's output: {}", e), case()))
        }
    };
    let rep = match validate::validate(&model, Some(entry_end(prog))) {
        Ok(r) => r,
        Err(e) => return ctx.settle(Violation::new("ill-formed-bytecode", e, case()).with("origin", origin)),
    };
    match project::project(&program) {
        Ok(p) => {
            if let Err(e) = validate::check_partition(&p.ranges, p.code_len) {
                return ctx.settle(Violation::new("method-ranges", e, case()));
            }
        }
        Err(e) => return ctx.settle(Violation::new("method-ranges", e, case())),
    }
    ctx.label_n("methods", rep.methods as u64);
    ctx.label_n("labels", rep.labels as u64);
    ctx.label_n("drops", rep.drops as u64);
    if rep.max_depth >= 4 {
        ctx.label("depth>=4");
    }
    if rep.drops >= 1 && rep.labels >= 1 {
        ctx.nontrivial(&bytes);
    }
    ctx.sample(src.len(), || json!({"source": render::pretty(prog), "methods": rep.methods, "instructions": rep.instructions, "labels": rep.labels, "drops": rep.drops, "max_depth": rep.max_depth}));
    Ok(())
}

// ------------------------------------------------------------------ discard matrix

pub fn prelude() -> Vec<E> {
    vec![
        let_("g", E::Int(1)),
        let_("arr", E::Array(bx(E::Int(3)), bx(E::Int(0)))),
        let_(
            "o",
            E::Object(
                None,
                vec![
                    Member::Field("f".into(), E::Int(1)),
                    Member::Method("m".into(), vec!["a".into()], var("a")),
                    Member::Method("get".into(), vec!["i".into()], var("i")),
                    Member::Method("set".into(), vec!["i".into(), "v".into()], var("v")),
                    Member::Method("+".into(), vec!["x".into()], var("x")),
                ],
            ),
        ),
        E::Fun("fn".into(), vec!["a".into()], bx(var("a"))),
        E::Fun("fn2".into(), vec!["a".into(), "b".into()], bx(print("~ ~\\n", vec![var("a"), var("b")]))),
    ]
}

/// One value-producing expression of every construct kind (arrays in both forms).
pub fn constructs(local: Option<&str>) -> Vec<(&'static str, E)> {
    let v = local.unwrap_or("g");
    vec![
        ("int", E::Int(7)),
        ("bool", E::Bool(true)),
        ("null", E::Null),
        ("var-read", var(v)),
        ("let", let_("fresh", E::Int(1))),
        ("assign", assign(v, E::Int(2))),
        ("block-empty", E::Block(vec![])),
        ("block-many", E::Block(vec![E::Int(1), var(v), E::Int(3)])),
        ("block-ending-in-var", E::Block(vec![E::Int(1), var(v)])),
        ("if-else", E::If(bx(E::Bool(true)), bx(E::Int(1)), Some(bx(var(v))))),
        ("if-no-else", E::If(bx(E::Bool(false)), bx(var(v)), None)),
        ("while", E::While(bx(E::Bool(false)), bx(var(v)))),
        ("array-simple", E::Array(bx(E::Int(2)), bx(var(v)))),
        ("array-compound", E::Array(bx(E::Int(2)), bx(call("fn", vec![E::Int(1)])))),
        ("array-compound-nested", E::Array(bx(E::Int(2)), bx(E::Array(bx(E::Int(1)), bx(bin("+", var(v), E::Int(1))))))),
        ("index-read", index(var("arr"), E::Int(0))),
        ("index-set", E::IndexSet(bx(var("arr")), bx(E::Int(0)), bx(E::Int(5)))),
        ("index-read-user", index(var("o"), E::Int(0))),
        ("index-set-user", E::IndexSet(bx(var("o")), bx(E::Int(0)), bx(E::Int(5)))),
        (
            "object",
            E::Object(
                Some(bx(var(v))),
                vec![Member::Field("q".into(), var(v)), Member::Method("w".into(), vec![], var("this")), Member::Field("r".into(), E::Int(2))],
            ),
        ),
        ("object-empty", E::Object(None, vec![])),
        ("field-read", field(var("o"), "f")),
        ("field-set", E::FieldSet(bx(var("o")), "f".into(), bx(var(v)))),
        ("call", call("fn", vec![var(v)])),
        ("method-call", mcall(var("o"), "m", vec![var(v)])),
        ("operator", bin("+", var(v), E::Int(1))),
        ("operator-user", bin("+", var("o"), var(v))),
        ("print", print("p ~\\n", vec![var(v)])),
        ("print-noargs", print("p\\n", vec![])),
        // constructs the compiler translates although they fail when executed: their code must
        // balance all the same
        ("object-field-twice-adjacent", E::Object(None, vec![Member::Field("q".into(), var(v)), Member::Field("q".into(), E::Int(2))])),
        ("object-field-twice-apart", E::Object(None, vec![Member::Field("q".into(), var(v)), Member::Field("r".into(), E::Int(2)), Member::Field("q".into(), E::Int(3))])),
        (
            "object-field-three-times",
            E::Object(Some(bx(E::Int(1))), vec![Member::Field("q".into(), E::Int(1)), Member::Field("q".into(), var(v)), Member::Field("q".into(), E::Int(3)), Member::Field("z".into(), E::Int(4))]),
        ),
        ("object-method-twice", E::Object(None, vec![Member::Method("w".into(), vec![], E::Int(1)), Member::Method("w".into(), vec![], E::Int(2))])),
        ("object-field-and-method-same-name", E::Object(None, vec![Member::Field("w".into(), var(v)), Member::Method("w".into(), vec![], E::Int(2))])),
        ("call-unknown-function", call("nosuchfunction", vec![var(v)])),
        ("call-too-few-arguments", call("fn", vec![])),
        ("call-too-many-arguments", call("fn", vec![var(v), E::Int(2), E::Int(3)])),
        ("read-undefined", var("neverdefined")),
        ("assign-undefined", assign("neverdefined2", var(v))),
        ("method-unknown", mcall(var("o"), "nosuchmethod", vec![var(v)])),
        ("method-on-null", mcall(E::Null, "m", vec![var(v)])),
        ("field-unknown", field(var("o"), "nosuchfield")),
        ("field-of-int", field(E::Int(1), "f")),
        ("print-too-few-arguments", print("~ ~\\n", vec![var(v)])),
        ("print-too-many-arguments", print("~\\n", vec![var(v), E::Int(2)])),
        ("array-negative-size", E::Array(bx(E::Int(-1)), bx(var(v)))),
        ("array-compound-negative-size", E::Array(bx(E::Int(-1)), bx(call("fn", vec![E::Int(1)])))),
        ("divide-by-zero", bin("/", var(v), E::Int(0))),
    ]
}

/// Enclosing positions: each takes the construct and yields statements.
pub fn positions(x: &E) -> Vec<(&'static str, Vec<E>)> {
    let x = || x.clone();
    let mut v: Vec<(&'static str, Vec<E>)> = vec![
        ("top-middle", vec![x(), E::Int(0)]),
        ("top-last", vec![x()]),
        ("block-middle-discarded", vec![E::Block(vec![x(), E::Int(0)]), E::Int(0)]),
        ("block-last-discarded", vec![E::Block(vec![E::Int(0), x()]), E::Int(0)]),
        ("block-last-kept", vec![let_("r1", E::Block(vec![E::Int(0), x()]))]),
        ("then-discarded", vec![E::If(bx(E::Bool(true)), bx(x()), Some(bx(E::Int(0)))), E::Int(0)]),
        ("else-discarded", vec![E::If(bx(E::Bool(false)), bx(E::Int(0)), Some(bx(x()))), E::Int(0)]),
        ("then-kept", vec![let_("r2", E::If(bx(E::Bool(true)), bx(x()), Some(bx(E::Int(0)))))]),
        ("else-kept", vec![let_("r3", E::If(bx(E::Bool(false)), bx(E::Int(0)), Some(bx(x()))))]),
        ("then-no-else-discarded", vec![E::If(bx(E::Bool(true)), bx(x()), None), E::Int(0)]),
        ("then-no-else-kept", vec![let_("r4", E::If(bx(E::Bool(true)), bx(x()), None))]),
        ("condition", vec![E::If(bx(E::Block(vec![x(), E::Bool(true)])), bx(E::Int(1)), Some(bx(E::Int(2)))), E::Int(0)]),
        ("loop-body-never", vec![E::While(bx(E::Bool(false)), bx(x())), E::Int(0)]),
        (
            "loop-body-once",
            vec![let_("c", E::Bool(true)), E::While(bx(var("c")), bx(E::Block(vec![assign("c", E::Bool(false)), x()]))), E::Int(0)],
        ),
        ("loop-condition", vec![E::While(bx(E::Block(vec![x(), E::Bool(false)])), bx(E::Int(0))), E::Int(0)]),
        ("loop-kept", vec![let_("r5", E::While(bx(E::Block(vec![x(), E::Bool(false)])), bx(x())))]),
        ("call-argument", vec![call("fn", vec![x()]), E::Int(0)]),
        ("call-argument-pending", vec![call("fn2", vec![E::Int(1), E::Block(vec![x(), E::Int(2)])])]),
        ("print-argument-pending", vec![print("~ ~\\n", vec![E::Int(1), E::Block(vec![x(), E::Int(2)])])]),
        ("method-argument", vec![mcall(var("o"), "m", vec![x()]), E::Int(0)]),
        ("method-argument-pending", vec![mcall(var("o"), "set", vec![E::Int(1), E::Block(vec![x(), E::Int(2)])])]),
        ("method-receiver", vec![mcall(E::Block(vec![x(), var("o")]), "m", vec![E::Int(1)])]),
        ("field-initializer", vec![E::Object(None, vec![Member::Field("q".into(), x())]), E::Int(0)]),
        (
            "field-initializer-pending",
            vec![E::Object(Some(bx(E::Int(1))), vec![Member::Field("p".into(), E::Int(1)), Member::Field("q".into(), E::Block(vec![x(), E::Int(2)]))])],
        ),
        ("parent", vec![E::Object(Some(bx(E::Block(vec![x(), E::Null]))), vec![])]),
        ("array-size", vec![E::Array(bx(E::Block(vec![x(), E::Int(1)])), bx(E::Int(0)))]),
        ("array-initializer", vec![E::Array(bx(E::Int(2)), bx(x())), E::Int(0)]),
        ("array-initializer-kept", vec![let_("r6", E::Array(bx(E::Int(2)), bx(E::Block(vec![x(), E::Int(1)]))))]),
        ("operand-right", vec![bin("+", E::Int(1), E::Block(vec![x(), E::Int(2)]))]),
        ("operand-left", vec![bin("+", E::Block(vec![x(), E::Int(2)]), E::Int(1))]),
        ("index-position", vec![index(var("arr"), E::Block(vec![x(), E::Int(0)]))]),
        ("indexset-value", vec![E::IndexSet(bx(var("arr")), bx(E::Int(0)), bx(E::Block(vec![x(), E::Int(2)])))]),
        ("fieldset-value", vec![E::FieldSet(bx(var("o")), "f".into(), bx(E::Block(vec![x(), E::Int(2)])))]),
        ("let-value", vec![let_("r7", x()), E::Int(0)]),
        ("assign-value", vec![assign("g", E::Block(vec![x(), E::Int(2)])), E::Int(0)]),
        ("method-body", vec![mcall(E::Object(None, vec![Member::Method("mm".into(), vec![], E::Block(vec![x(), E::Int(1)]))]), "mm", vec![])]),
        ("method-body-value", vec![mcall(E::Object(None, vec![Member::Method("mm".into(), vec![], x())]), "mm", vec![])]),
    ];
    v.push(("function-body", vec![E::Fun("h1".into(), vec![], bx(x())), call("h1", vec![])]));
    v.push(("function-body-discarded", vec![E::Fun("h2".into(), vec![], bx(E::Block(vec![x(), E::Int(0)]))), call("h2", vec![])]));
    v
}

#[derive(Clone, Copy, PartialEq)]
enum Wrap {
    Top,
    TopBlock,
    Function,
}

pub fn matrix() -> Vec<(String, Prog)> {
    let mut out = vec![];
    for wrap in &[Wrap::Top, Wrap::TopBlock, Wrap::Function] {
        let local = match wrap {
            Wrap::Top => None,
            Wrap::TopBlock => Some("loc"),
            Wrap::Function => Some("par"),
        };
        for (cn, c) in constructs(local) {
            for (pn, stmts) in positions(&c) {
                let has_fun = stmts.iter().any(|s| matches!(s, E::Fun(..)));
                let name = format!("{}/{}/{}", match wrap { Wrap::Top => "top", Wrap::TopBlock => "top-block", Wrap::Function => "function" }, cn, pn);
                let mut prog = prelude();
                match wrap {
                    Wrap::Top => prog.extend(stmts),
                    Wrap::TopBlock => {
                        if has_fun {
                            continue;
                        }
                        // `loc` is the second local of the entry frame: an index that does not
                        // exist in a small method frame
                        let mut b = vec![let_("pad", E::Int(0)), let_("loc", E::Int(3))];
                        b.extend(stmts);
                        prog.push(E::Block(b));
                    }
                    Wrap::Function => {
                        if has_fun {
                            continue;
                        }
                        // `g` is assigned in one position: it is a global, visible in the function
                        prog.push(E::Fun("wrap".into(), vec!["par".into()], bx(E::Block(stmts))));
                        prog.push(call("wrap", vec![E::Int(4)]));
                    }
                }
                out.push((name, prog));
            }
        }
    }
    out
}

/// The same name declared twice in ONE scope, in every frame kind and in the shapes that put
/// two lets into one scope without looking like it (both arms of a conditional without
/// begin..end, a let in a loop body, a let in an argument list).
pub fn redeclarations() -> Vec<(String, Prog)> {
    let twice: Vec<(&str, Vec<E>)> = vec![
        ("plain", vec![let_("d", E::Int(1)), let_("d", E::Int(2)), var("d")]),
        ("then-other-lets", vec![let_("d", E::Int(1)), let_("d", E::Int(2)), let_("e", E::Int(3)), bin("+", var("d"), var("e"))]),
        ("three-times", vec![let_("d", E::Int(1)), let_("d", E::Int(2)), let_("d", E::Int(3)), var("d")]),
        ("both-arms-of-if", vec![E::If(bx(E::Bool(true)), bx(let_("d", E::Int(1))), Some(bx(let_("d", E::Int(2))))), var("d")]),
        ("if-arm-then-again", vec![E::If(bx(E::Bool(true)), bx(let_("d", E::Int(1))), None), let_("d", E::Int(2)), var("d")]),
        ("loop-body-let-then-again", vec![let_("c", E::Bool(true)), E::While(bx(var("c")), bx(E::Block(vec![assign("c", E::Bool(false))]))), let_("c", E::Int(2)), var("c")]),
        ("in-arguments", vec![print("~ ~\\n", vec![let_("d", E::Int(1)), let_("d", E::Int(2))]), var("d")]),
    ];
    let mut out = vec![];
    for (name, stmts) in twice {
        out.push((format!("{}-in-function", name), vec![E::Fun("host".into(), vec!["p".into()], bx(E::Block(stmts.clone()))), call("host", vec![E::Int(0)])]));
        out.push((
            format!("{}-in-method", name),
            vec![let_("holder", E::Object(None, vec![Member::Method("host".into(), vec!["p".into()], E::Block(stmts.clone()))])), mcall(var("holder"), "host", vec![E::Int(0)])],
        ));
        out.push((format!("{}-in-top-level-block", name), vec![E::Block(stmts.clone())]));
        out.push((format!("{}-at-top-level", name), stmts.clone()));
    }
    out
}

impl Property for C02 {
    fn id(&self) -> &'static str {
        "C02"
    }
    fn ir_shrinkable(&self) -> bool {
        true
    }
    fn fuzzable(&self) -> bool {
        true
    }
    fn rule(&self) -> String {
        "cases: (i) a bounded-exhaustive discard matrix: every construct kind x every enclosing position (value kept / discarded / beneath pending operands) x {top level, top-level block, function body}, all enumerated in both tiers; (ii) programs from the typed generator with the discard-heavy profile, including programs that fail at run time. Each is compiled by FML, serialized, decoded by the independent reader and checked by the static validator (constant kinds, labels unique program-wide and local to their method, frame sizes, method ranges partition the code, operand-stack depth by abstract interpretation: never negative, path-independent, exactly 1 at return, 1 (0 after a trailing function definition) at the end of the entry). non-trivial: the bytecode contains >=1 drop and >=1 label; distinct by byte image".into()
    }
    fn assumptions(&self) -> Vec<String> {
        vec![
            "the validator demands only what the property statement lists; FML-specific conventions (label spelling, constant order, slot numbering) are not checked".into(),
            "pops/pushes per opcode follow the instruction documentation in bytecode.rs (object pops #slots+1, calls pop their arity, set local/global keep the operand)".into(),
        ]
    }
    fn random_cases(&self, tier: Tier) -> u64 {
        tier.pick(300_000, 6_000_000)
    }
    fn exhaustive_note(&self, _tier: Tier) -> Option<String> {
        Some(format!("discard matrix: {} programs (construct kind x position x frame kind), enumerated completely; the random campaign is not exhaustive", matrix().len()))
    }
    fn fixed_parts(&self, ctx: &mut Ctx) -> Vec<Violation> {
        let mut out = vec![];
        for (i, (name, prog)) in matrix().into_iter().enumerate() {
            if !ctx.shard_mine(i) {
                continue;
            }
            ctx.label("matrix-program");
            if let Err(mut v) = judge_source(&prog, ctx, &name) {
                v.detail = format!("[matrix {}] {}", name, v.detail);
                out.push(v);
            }
        }
        // programs the pinned compiler refuses (a name declared twice in one scope): a compiler
        // that translates them after all must still emit well-formed code (frame sizes!)
        for (i, (name, prog)) in redeclarations().into_iter().enumerate() {
            if !ctx.shard_mine(i + 1) {
                continue;
            }
            ctx.label("redeclaration-program");
            if let Err(mut v) = judge_source(&prog, ctx, &format!("limit:{}", name)) {
                v.detail = format!("[redeclaration {}] {}", name, v.detail);
                out.push(v);
            }
        }
        for (i, (name, prog)) in crate::gen::scale::programs().into_iter().enumerate() {
            if !ctx.shard_mine(i + 3) {
                continue;
            }
            ctx.label("scale-program");
            if let Err(mut v) = judge_source(&prog, ctx, name) {
                v.detail = format!("[scale program {}] {}", name, v.detail);
                out.push(v);
            }
        }
        // programs on the widths of the format (254..257 arguments, members, locals): whatever
        // the compiler emits for the ones it accepts must be well-formed
        let mut limit_programs = crate::gen::limits::programs();
        limit_programs.extend(crate::gen::limits::huge_programs());
        for (i, (name, src)) in limit_programs.into_iter().enumerate() {
            if !ctx.shard_mine(i + 5) {
                continue;
            }
            if let Ok(ast) = fmlrun::parse(&src) {
                let prog = from_fml_ast(&ast);
                ctx.label("limit-program");
                if let Err(mut v) = judge_source(&prog, ctx, &format!("limit:{}", name)) {
                    v.detail = format!("[limit program {}] {}", name, v.detail);
                    out.push(v);
                }
            }
        }
        // the repository's own programs
        for (i, f) in crate::tools::repo_fml_files(crate::FML_ROOT).iter().enumerate() {
            if !ctx.shard_mine(i) {
                continue;
            }
            if let Ok(src) = std::fs::read_to_string(f) {
                if let Ok(ast) = fmlrun::parse(&src) {
                    let prog = from_fml_ast(&ast);
                    ctx.label("repo-corpus-program");
                    if let Err(mut v) = judge_source(&prog, ctx, "repo") {
                        v.detail = format!("[in-repo program {}] {}", f.display(), v.detail);
                        out.push(v);
                    }
                }
            }
        }
        out
    }
    fn judge_tape(&self, tape: &[u8], ctx: &mut Ctx) -> Judged {
        let mut t = Tape::new(tape);
        let g = generate(&mut t, &Profile::discard_heavy());
        judge_source(&g.prog, ctx, "random")
    }
    fn replay(&self, case: &Value, ctx: &mut Ctx) -> Judged {
        if case.get("ir").is_some() || case.get("source").is_some() {
            let prog = crate::props::c01::prog_from_case(case).map_err(|e| Violation::new("harness-error", e, case.clone()))?;
            return judge_source(&prog, ctx, case["origin"].as_str().unwrap_or("replay"));
        }
        if let Some(t) = case["tape"].as_str() {
            if let Some(bytes) = crate::tape::unhex(t) {
                return self.judge_tape(&bytes, ctx);
            }
        }
        Err(Violation::new("harness-error", "unusable replay case", case.clone()))
    }
}
