//! C14 — object model: parent-chain dispatch, operators as methods, reference semantics.

use crate::gen::prog::{generate, Profile};
use crate::harness::*;
use crate::ir::*;
use crate::props::c01::compare_with_reference;
use crate::render;
use crate::tape::{hex, Tape};
use serde_json::{json, Value};
use std::cell::RefCell;

pub struct C14;

thread_local! {
    static COUNTER: RefCell<u64> = RefCell::new(0);
}

fn judge(prog: &Prog, ctx: &mut Ctx, cli: bool, fault: Option<&str>) -> Judged {
    if let Some(r) = compare_with_reference(prog, ctx, cli, fault, "C14")? {
        let s = &r.stats;
        let mut nt = false;
        if s.inherited > 0 {
            ctx.label("method-found-in-strict-ancestor");
            nt = true;
        }
        if s.sugar_user > 0 {
            ctx.label("sugar-lands-in-user-method");
            nt = true;
        }
        if s.builtin_via_parent > 0 {
            ctx.label("builtin-through-object-parent");
            nt = true;
        }
        if s.alias_observed > 0 {
            ctx.label("mutation-observed-through-other-location-kind");
            nt = true;
        }
        if s.arity_failures > 0 {
            ctx.label("argument-count-failure");
            nt = true;
        }
        if nt {
            ctx.nontrivial(render::text(prog, render::Style::Minimal).as_bytes());
        }
    }
    Ok(())
}

/// Hand-written seeds that pin the documentation-silent points the generator relies on.
pub fn seeds() -> Vec<(&'static str, &'static str)> {
    vec![
        ("parent-chain-4", "function mk(p) -> object extends p begin end; let base = object begin function who() -> 1 end; let o = mk(mk(mk(mk(base)))); print(\"~\\n\", o.who())"),
        ("override", "let p = object begin function m() -> 1; function n() -> 2 end; let c = object extends p begin function m() -> 3 end; print(\"~ ~\\n\", c.m(), c.n())"),
        ("operator-override", "let o = object extends 5 begin function +(x) -> 100 end; print(\"~ ~\\n\", o + 1, o - 1)"),
        ("index-sugar", "let o = object begin function get(i) -> i * 2; function set(i, v) -> i + v end; print(\"~ ~ ~ ~\\n\", o[4], o.get(4), o[1] <- 2, o.set(1, 2))"),
        ("array-parent", "let o = object extends array(2, 7) begin end; o[1] <- 9; print(\"~ ~ ~\\n\", o[0], o[1], o)"),
        ("alias-var-arg-field-element-this", "function poke(q) -> q[0] <- 5; let a = array(1, 0); let b = a; let h = object begin let f = a; function me() -> this.f[0] <- this.f[0] + 1 end; let w = array(1, a); poke(b); h.me(); w[0][0] <- w[0][0] + 10; print(\"~ ~ ~ ~\\n\", a, b, h.f, w)"),
        ("primitives-are-values", "function inc(n) -> begin n <- n + 1; n end; let x = 1; let y = x; y <- 2; print(\"~ ~ ~ ~\\n\", inc(x), x, y, inc(y))"),
        ("arity-method", "let o = object begin function m(a) -> a end; print(\"a\\n\"); o.m(1, 2); print(\"b\\n\")"),
        ("arity-function", "function f(a) -> a; print(\"a\\n\"); f(); print(\"b\\n\")"),
        ("no-method-anywhere", "let o = object extends object begin end begin end; print(\"a\\n\"); o.zap(); print(\"b\\n\")"),
        ("builtin-at-chain-end", "let o = object extends object extends 7 begin end begin end; print(\"~ ~ ~\\n\", o + 1, o < 9, o == 7)"),
        ("bool-parent", "let o = object extends true begin end; print(\"~ ~\\n\", o & false, o | false)"),
        ("null-parent-eq", "let o = object begin function ==(x) -> 42 end; print(\"~\\n\", o == 1)"),
        ("field-and-method-share-a-name", "let o = object begin let size = 3; function size() -> this.size + 1 end; o.size <- 10; print(\"~ ~ ~\\n\", o.size, o.size(), o)"),
        ("field-named-like-inherited-method", "let p = object begin function v() -> 1; let w = 5 end; let c = object extends p begin let v = 2; function w() -> 6 end; print(\"~ ~ ~ ~\\n\", c.v, c.v(), c.w(), c)"),
    ]
}

impl Property for C14 {
    fn id(&self) -> &'static str {
        "C14"
    }
    fn ir_shrinkable(&self) -> bool {
        true
    }
    fn fuzzable(&self) -> bool {
        true
    }
    fn rule(&self) -> String {
        "cases: programs from the typed generator with the object profile (constructor functions for up to 6 classes with parent chains ending in null/int/bool/array/object, overriding, operator/get/set members used through sugar and explicit spelling, inherited candidates preferred, one injected object-model fault in ~15%: method arity +1/-1, unknown field, unknown method with and without a primitive at the chain's end), plus hand-written seeds for every clause. oracle: reference semantics (dispatch, arity, delegation, reference vs value). non-trivial: a method is found in a strict ancestor, or operator/index sugar lands in a user method, or a built-in is reached through an object parent, or a mutation is observed through a different kind of location (variable, this, field, element, call result) than it was made through, or an argument-count failure occurs; distinct by source".into()
    }
    fn assumptions(&self) -> Vec<String> {
        vec!["in an inherited method `this` is the object that holds the method (delegation; the in-repo dispatch.fml depends on it); fields are looked up only in the object itself".into()]
    }
    fn random_cases(&self, tier: Tier) -> u64 {
        tier.pick(120_000, 4_000_000)
    }
    fn fixed_parts(&self, ctx: &mut Ctx) -> Vec<Violation> {
        let mut out = vec![];
        for (i, (name, src)) in seeds().into_iter().enumerate() {
            if !ctx.shard_mine(i) {
                continue;
            }
            let ast = match crate::fmlrun::parse(src) {
                Ok(a) => a,
                Err(e) => {
                    out.push(Violation::new("harness-error", format!("seed {} does not parse: {}", name, e), json!({})));
                    continue;
                }
            };
            let prog = from_fml_ast(&ast);
            ctx.label("seed");
            if let Err(mut v) = judge(&prog, ctx, true, None) {
                v.detail = format!("[seed {}] {}", name, v.detail);
                out.push(v);
            }
        }
        out
    }
    fn judge_tape(&self, tape: &[u8], ctx: &mut Ctx) -> Judged {
        let mut t = Tape::new(tape);
        let g = generate(&mut t, &Profile::object_heavy());
        let sample = tape_sample(tape, ctx.tier.pick(60, 20));
        let _ = hex(tape);
        judge(&g.prog, ctx, sample, g.fault.as_deref())
    }
    fn replay(&self, case: &Value, ctx: &mut Ctx) -> Judged {
        if case.get("ir").is_some() || case.get("source").is_some() {
            let prog = crate::props::c01::prog_from_case(case).map_err(|e| Violation::new("harness-error", e, case.clone()))?;
            return judge(&prog, ctx, true, None);
        }
        if let Some(t) = case["tape"].as_str() {
            if let Some(bytes) = crate::tape::unhex(t) {
                let mut tp = Tape::new(&bytes);
                let g = generate(&mut tp, &Profile::object_heavy());
                return judge(&g.prog, ctx, true, g.fault.as_deref());
            }
        }
        Err(Violation::new("harness-error", "unusable replay case", case.clone()))
    }
}
