//! C07 — parsing follows the documented precedence, associativity and layout rules.

use crate::fmlrun;
use crate::gen::ast;
use crate::harness::*;
use crate::ir::*;
use crate::render::{self, Renderer, Style};
use crate::tape::{hex, Tape};
use serde_json::{json, Value};

pub struct C07;

fn parse_ir(src: &str) -> Result<(crate::parser::AST, Prog), String> {
    let ast = fmlrun::parse(src)?;
    let p = from_fml_ast(&ast);
    Ok((ast, p))
}

// ------------------------------------------------------------------ reference operator parser

/// Precedence climbing over `x0 o1 x1 o2 x2 ...` with the README levels, left associative.
pub fn reference_tree(operands: &[E], ops: &[&str]) -> E {
    fn climb(operands: &[E], ops: &[&str], pos: &mut usize, min_prec: u8) -> E {
        let mut left = operands[*pos].clone();
        while *pos < ops.len() {
            let op = ops[*pos];
            let p = prec(op);
            if p < min_prec {
                break;
            }
            *pos += 1;
            let right = climb(operands, ops, pos, p + 1);
            left = E::MCall(bx(left), op.to_string(), vec![right]);
        }
        left
    }
    let mut pos = 0;
    climb(operands, ops, &mut pos, 1)
}

fn check_sentence(operands: &[&str], ops: &[&str], ctx: &mut Ctx) -> Judged {
    ctx.eval();
    let mut src = String::new();
    for (i, x) in operands.iter().enumerate() {
        if i > 0 {
            src.push(' ');
            src.push_str(ops[i - 1]);
            src.push(' ');
        }
        src.push_str(x);
    }
    let vars: Vec<E> = operands.iter().map(|x| var(x)).collect();
    let want = vec![reference_tree(&vars, ops)];
    let case = || json!({"source": src, "kind": "operator-sentence"});
    match parse_ir(&src) {
        Err(e) => ctx.settle(Violation::new("parse-rejected", format!("`{}`: {}", src, e), case())),
        Ok((_, got)) => {
            if got != want {
                return ctx.settle(Violation::new(
                    "wrong-grouping",
                    format!("`{}` parses to\n  {}\nbut the documented precedence/associativity gives\n  {}", src, render::text(&got, Style::Full), render::text(&want, Style::Full)),
                    case(),
                ));
            }
            let levels: std::collections::BTreeSet<u8> = ops.iter().map(|o| prec(o)).collect();
            if levels.len() >= 2 {
                ctx.nontrivial(src.as_bytes());
            }
            Ok(())
        }
    }
}

// ------------------------------------------------------------------ dangling else family

#[derive(Clone, Debug)]
enum D {
    Id(&'static str),
    If(Box<D>, Option<Box<D>>),
    While(Box<D>),
    Let(Box<D>),
    Assign(Box<D>),
    FieldSet(Box<D>),
    IndexSet(Box<D>),
}

fn d_trees(depth: usize) -> Vec<D> {
    if depth == 0 {
        return vec![D::Id("c")];
    }
    let sub = d_trees(depth - 1);
    let mut out = vec![D::Id("c")];
    for s in &sub {
        out.push(D::If(Box::new(s.clone()), None));
        out.push(D::While(Box::new(s.clone())));
        out.push(D::Let(Box::new(s.clone())));
        out.push(D::Assign(Box::new(s.clone())));
        if depth <= 2 {
            out.push(D::FieldSet(Box::new(s.clone())));
            out.push(D::IndexSet(Box::new(s.clone())));
        }
    }
    // conditionals with else: only a sample of else-branches to keep the space bounded
    let small = d_trees(depth.saturating_sub(2));
    for s in &sub {
        for e in &small {
            out.push(D::If(Box::new(s.clone()), Some(Box::new(e.clone()))));
        }
    }
    out
}

/// naive printing WITHOUT any parentheses: the sentence may be ambiguous on paper;
/// the nearest-if rule decides
fn d_tokens(d: &D, out: &mut Vec<&'static str>) {
    match d {
        D::Id(s) => out.push(s),
        D::If(t, e) => {
            out.extend_from_slice(&["if", "a", "then"]);
            d_tokens(t, out);
            if let Some(e) = e {
                out.push("else");
                d_tokens(e, out);
            }
        }
        D::While(b) => {
            out.extend_from_slice(&["while", "w", "do"]);
            d_tokens(b, out);
        }
        D::Let(v) => {
            out.extend_from_slice(&["let", "y", "="]);
            d_tokens(v, out);
        }
        D::Assign(v) => {
            out.extend_from_slice(&["z", "<-"]);
            d_tokens(v, out);
        }
        D::FieldSet(v) => {
            out.extend_from_slice(&["o", ".", "f", "<-"]);
            d_tokens(v, out);
        }
        D::IndexSet(v) => {
            out.extend_from_slice(&["o", "[", "i", "]", "<-"]);
            d_tokens(v, out);
        }
    }
}

/// Reference recursive-descent parser of the token sentence: else binds to the nearest if.
fn d_parse(toks: &[&str], pos: &mut usize) -> Option<E> {
    let t = *toks.get(*pos)?;
    match t {
        "if" => {
            *pos += 3; // if a then
            let th = d_parse(toks, pos)?;
            if toks.get(*pos) == Some(&"else") {
                *pos += 1;
                let el = d_parse(toks, pos)?;
                Some(E::If(bx(var("a")), bx(th), Some(bx(el))))
            } else {
                Some(E::If(bx(var("a")), bx(th), Some(bx(E::Null))))
            }
        }
        "while" => {
            *pos += 3;
            let b = d_parse(toks, pos)?;
            Some(E::While(bx(var("w")), bx(b)))
        }
        "let" => {
            *pos += 3;
            let v = d_parse(toks, pos)?;
            Some(E::Let("y".into(), bx(v)))
        }
        "z" => {
            *pos += 2;
            let v = d_parse(toks, pos)?;
            Some(E::Assign("z".into(), bx(v)))
        }
        "o" => {
            if toks.get(*pos + 1) == Some(&".") {
                *pos += 4;
                let v = d_parse(toks, pos)?;
                Some(E::FieldSet(bx(var("o")), "f".into(), bx(v)))
            } else {
                *pos += 5;
                let v = d_parse(toks, pos)?;
                Some(E::IndexSet(bx(var("o")), bx(var("i")), bx(v)))
            }
        }
        id => {
            *pos += 1;
            Some(var(id))
        }
    }
}

// ------------------------------------------------------------------ layout decoration

const DECOR: [&str; 29] = [
    // the shortest comments there are, and comments whose body looks like something else
    "//\n", "//\r\n", "//\t\n", "//x\n", "//*\n", "// */\n", "///\n", "/* */", "/*\n*/", "/*/ */",
    " ", "\t", "\r", "\n", "\r\n", "/**/", "/* x */", "/* ** / */", "/* 👍 ž */", "/* a\n   b\n*/", "// c\n", "// 👍\n", "  ", "/***/", "/** doc **/", "/* 👍 **/",
    "/****\n * banner\n ****/", "/* a // b */", "// /* not open\n",
];

pub fn decorate(toks: &[String], t: &mut Tape) -> String {
    let mut s = String::new();
    let dec = |s: &mut String, t: &mut Tape, prev: Option<&str>| {
        let n = t.weighted(&[3, 6, 2, 1]);
        for k in 0..n {
            let d = DECOR[t.pick(DECOR.len())];
            // `/` directly followed by a comment opener would become a different lexeme
            let last = s.chars().last();
            if d.starts_with('/') && (last == Some('/') || (k == 0 && prev.map(|p| p.ends_with('/')).unwrap_or(false))) {
                s.push(' ');
            }
            s.push_str(d);
        }
        n
    };
    dec(&mut s, t, None);
    for (i, tok) in toks.iter().enumerate() {
        if i > 0 {
            let before = s.len();
            let n = dec(&mut s, t, Some(&toks[i - 1]));
            if n == 0 && !render::can_glue(&toks[i - 1], tok) {
                s.push(' ');
            }
            let _ = before;
        }
        // a comment decoration ending in `*/` or a token ending in `/` followed by a token
        // starting with `/` or `*` cannot occur: operators are single tokens separated by operands
        s.push_str(tok);
    }
    dec(&mut s, t, toks.last().map(|x| x.as_str()));
    // a line comment that the end of the input closes instead of a line break
    if t.chance(24) {
        if s.ends_with('/') {
            s.push(' ');
        }
        s.push_str(["//", "// end", "//👍", "// */"][t.pick(4)]);
    }
    s
}

impl Property for C07 {
    fn id(&self) -> &'static str {
        "C07"
    }
    fn fuzzable(&self) -> bool {
        true
    }
    fn rule(&self) -> String {
        "cases: (exhaustive) all 13^3 sentences `a o1 b o2 c o3 d`, all 169 pairs and 13 single operators against an own precedence-climbing parser (five README levels, left associative, nested method calls), `a o b` == `a.o(b)`, and the dangling-else family (all paren-free sentences over if/else/while/let/<-/field<-/index<- up to nesting 4, against a nearest-if reference parser); (random) IR from the tape over the parser's whole range -> rendered minimally and fully parenthesized -> parsed -> must equal the IR; the parser-produced AST printed again in both styles must reparse to the identical AST; token-boundary decorations from {space, tab, CR, LF, CRLF, block comments incl. UTF-8/multi-line/star runs, line comments} and redundant parentheses must not change the AST. non-trivial: >=2 operators of different levels, or a dangling-else shape, or a postfix chain >=3; distinct by text".into()
    }
    fn assumptions(&self) -> Vec<String> {
        vec![
            "the six comparison operators share one level (the README table lists == and !=; the grammar and the README's example treat all six alike)".into(),
            "only insertion of layout between tokens is claimed, never deletion of required whitespace; only the documented ASCII whitespace is inserted".into(),
        ]
    }
    fn random_cases(&self, tier: Tier) -> u64 {
        tier.pick(200_000, 4_000_000)
    }
    fn max_tape(&self) -> usize {
        500
    }
    fn exhaustive_note(&self, _tier: Tier) -> Option<String> {
        Some("operator triples 13^3 = 2197, pairs 169, singles 13; dangling-else sentences up to nesting 4; the random round-trip part is not exhaustive".into())
    }
    fn fixed_parts(&self, ctx: &mut Ctx) -> Vec<Violation> {
        let mut out = vec![];
        let mut k = 0usize;
        let names = ["a", "b", "c", "d"];
        for o1 in OPS.iter() {
            k += 1;
            if ctx.shard_mine(k) {
                if let Err(v) = check_sentence(&names[..2], &[o1], ctx) {
                    out.push(v);
                }
                // `a o b` is the method call a.o(b)
                ctx.eval();
                let s1 = format!("a {} b", o1);
                let s2 = format!("a.{}(b)", o1);
                match (fmlrun::parse(&s1), fmlrun::parse(&s2)) {
                    (Ok(x), Ok(y)) if x == y => {}
                    (x, y) => out.push(Violation::new(
                        "operator-is-not-method-call",
                        format!("`{}` and `{}` parse differently: {:?} vs {:?}", s1, s2, x.is_ok(), y.is_ok()),
                        json!({"source": s1}),
                    )),
                }
            }
            for o2 in OPS.iter() {
                k += 1;
                if ctx.shard_mine(k) {
                    if let Err(v) = check_sentence(&names[..3], &[o1, o2], ctx) {
                        out.push(v);
                    }
                }
                for o3 in OPS.iter() {
                    k += 1;
                    if ctx.shard_mine(k) {
                        if let Err(v) = check_sentence(&names[..4], &[o1, o2, o3], ctx) {
                            out.push(v);
                        }
                    }
                }
            }
            if out.len() > 10 {
                return out;
            }
        }
        // index sugar
        if ctx.index == 0 {
            for (src, want) in vec![
                ("a[i]", index(var("a"), var("i"))),
                ("a[i] <- v", E::IndexSet(bx(var("a")), bx(var("i")), bx(var("v")))),
                ("a.b[i].m(x)[j].c", field(index(mcall(index(field(var("a"), "b"), var("i")), "m", vec![var("x")]), var("j")), "c")),
                ("a.b.c.d", field(field(field(var("a"), "b"), "c"), "d")),
                ("f(x).y.z(1)", mcall(field(call("f", vec![var("x")]), "y"), "z", vec![E::Int(1)])),
            ] {
                ctx.eval();
                match parse_ir(src) {
                    Ok((_, got)) if got == vec![want.norm()] => {}
                    other => out.push(Violation::new(
                        "wrong-chain",
                        format!("`{}` parses to {:?}", src, other.map(|x| render::text(&x.1, Style::Full))),
                        json!({"source": src}),
                    )),
                }
            }
        }
        // dangling else
        let mut seen = std::collections::BTreeSet::new();
        for (i, d) in d_trees(4).iter().enumerate() {
            let mut toks = vec![];
            d_tokens(d, &mut toks);
            let src = toks.join(" ");
            if !seen.insert(src.clone()) {
                continue;
            }
            if !ctx.shard_mine(i) {
                continue;
            }
            ctx.eval();
            let mut pos = 0;
            let want = match d_parse(&toks, &mut pos) {
                Some(e) if pos == toks.len() => e,
                _ => {
                    // a sentence like `if a then c else c else c` is not in the language
                    ctx.exclude("dangling-else-sentence-not-in-language");
                    continue;
                }
            };
            ctx.label("dangling-else-sentence");
            match parse_ir(&src) {
                Err(e) => out.push(Violation::new("parse-rejected", format!("`{}`: {}", src, e), json!({"source": src}))),
                Ok((_, got)) => {
                    if got != vec![want.clone()] {
                        out.push(Violation::new(
                            "else-binding",
                            format!("`{}` parses to\n  {}\nnearest-if rule gives\n  {}", src, render::text(&got, Style::Full), render::text(&vec![want], Style::Full)),
                            json!({"source": src}),
                        ));
                    } else if src.matches("if").count() >= 2 && src.contains("else") {
                        ctx.nontrivial(src.as_bytes());
                    }
                }
            }
            if out.len() > 10 {
                return out;
            }
        }
        out
    }
    fn judge_tape(&self, tape: &[u8], ctx: &mut Ctx) -> Judged {
        ctx.eval();
        let mut t = Tape::new(tape);
        let prog = ast::generate(&mut t);
        let want = norm_prog(&prog);
        let case = || json!({"tape": hex(tape), "source": render::text(&prog, Style::Minimal)});
        let mut first_ast = None;
        for style in &[Style::Minimal, Style::Full] {
            let src = render::text(&prog, *style);
            match parse_ir(&src) {
                Err(e) => {
                    return ctx.settle(Violation::new("parse-rejected", format!("{:?} rendering rejected: {}\n{}", style, e, src), case()).with("style", format!("{:?}", style)))
                }
                Ok((ast, got)) => {
                    if got != want {
                        return ctx.settle(
                            Violation::new(
                                "round-trip",
                                format!("{:?} rendering parses to a different tree:\nsource {}\nparsed {}\nwanted {}", style, src, render::text(&got, Style::Full), render::text(&want, Style::Full)),
                                case(),
                            )
                            .with("style", format!("{:?}", style)),
                        );
                    }
                    // print the PARSER-produced AST again in both styles: identical AST
                    for s2 in &[Style::Minimal, Style::Full] {
                        let again = render::text(&got, *s2);
                        match fmlrun::parse(&again) {
                            Ok(a2) if a2 == ast => {}
                            Ok(_) => return ctx.settle(Violation::new("reprint", format!("re-printed ({:?}) AST reparses differently: {}", s2, again), case())),
                            Err(e) => return ctx.settle(Violation::new("reprint", format!("re-printed ({:?}) AST is rejected: {}\n{}", s2, e, again), case())),
                        }
                    }
                    if first_ast.is_none() {
                        first_ast = Some(ast);
                    }
                }
            }
        }
        let ast0 = first_ast.unwrap();
        // layout: decorations between tokens, redundant parentheses
        let mut r = Renderer::new(Style::Minimal);
        let n = 40;
        r.extra = Some((0..n).map(|_| t.byte()).collect());
        r.program(&prog);
        let extra_used = r.extra_used;
        let decorated = decorate(&r.toks, &mut t);
        match fmlrun::parse(&decorated) {
            Ok(a) if a == ast0 => {}
            Ok(_) => return ctx.settle(Violation::new("layout-changes-ast", format!("decorated text parses differently:\n{}", decorated), json!({"tape": hex(tape), "source": decorated}))),
            Err(e) => {
                return ctx.settle(Violation::new("layout-rejected", format!("decorated text is rejected: {}\n{}", e, decorated), json!({"tape": hex(tape), "source": decorated})))
            }
        }
        if extra_used > 0 {
            ctx.label("redundant-parentheses");
        }
        if decorated.contains("/*") {
            ctx.label("block-comment");
        }
        if decorated.contains("//") {
            ctx.label("line-comment");
        }
        let (levels, chain, dangling) = ast::features(&prog);
        if levels >= 2 {
            ctx.label("mixed-precedence");
        }
        if dangling {
            ctx.label("dangling-else-shape");
        }
        if chain >= 3 {
            ctx.label("postfix-chain>=3");
        }
        if levels >= 2 || dangling || chain >= 3 {
            ctx.nontrivial(render::text(&prog, Style::Minimal).as_bytes());
        }
        ctx.sample(decorated.len(), || json!({"minimal": render::text(&prog, Style::Minimal), "decorated": decorated}));
        Ok(())
    }
    fn replay(&self, case: &Value, ctx: &mut Ctx) -> Judged {
        if let Some(t) = case["tape"].as_str() {
            if let Some(bytes) = crate::tape::unhex(t) {
                return self.judge_tape(&bytes, ctx);
            }
        }
        Err(Violation::new("harness-error", "C07 replays need a tape (operator sentences are re-enumerated by every run)", case.clone()))
    }
}
