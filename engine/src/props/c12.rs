//! C12 — lexical scoping: blocks, shadowing, function isolation, globals.

use crate::fmlrun;
use crate::gen::prog::{generate, Profile};
use crate::harness::*;
use crate::ir::*;
use crate::refsem::{self, Outcome};
use crate::render;
use crate::tape::{hex, Tape};
use serde_json::{json, Value};
use std::collections::BTreeMap;

pub struct C12;

#[derive(Clone, Debug, PartialEq)]
pub enum S {
    Let(u8),
    Assign(u8),
    Print(u8),
    /// 0 ra() 1 wa() 2 sa() 3 o.ra() 4 o.wa() 5 o.sa(): read / assign / shadow `a` in a callee;
    /// 6 7 8: the same through a method of an object literal written AT THE CALL SITE (inside
    /// the caller's block), 9: such a method reading `b`
    Call(u8),
    Block(Vec<S>),
    If(bool, Box<S>, Option<Box<S>>),
    While(Box<S>),
}

#[derive(Clone, Copy, PartialEq, Debug)]
pub enum Ctx4 {
    Top,
    TopBlock,
    Function,
    Method,
}

pub const CONTEXTS: [Ctx4; 4] = [Ctx4::Top, Ctx4::TopBlock, Ctx4::Function, Ctx4::Method];

fn leaves() -> Vec<S> {
    let mut v = vec![S::Let(0), S::Let(1), S::Assign(0), S::Assign(1), S::Print(0), S::Print(1)];
    for k in 0..10 {
        v.push(S::Call(k));
    }
    v
}

/// all single statements with exactly `k` nodes and nesting depth <= d
fn stmts(k: usize, d: usize, memo: &mut BTreeMap<(usize, usize), Vec<S>>) -> Vec<S> {
    if let Some(v) = memo.get(&(k, d)) {
        return v.clone();
    }
    let mut out = vec![];
    if k == 1 {
        out = leaves();
        if d > 0 {
            out.push(S::Block(vec![]));
        }
    } else if d > 0 {
        // block with a body of k-1 nodes
        for body in seqs_exact(k - 1, d - 1, memo) {
            out.push(S::Block(body));
        }
        // while / if without else: one sub-statement of k-1 nodes
        for s in stmts(k - 1, d - 1, memo) {
            out.push(S::While(Box::new(s.clone())));
            out.push(S::If(true, Box::new(s.clone()), None));
            out.push(S::If(false, Box::new(s), None));
        }
        // if with else: k-1 nodes split between the branches
        for i in 1..k - 1 {
            let ts = stmts(i, d - 1, memo);
            let es = stmts(k - 1 - i, d - 1, memo);
            for t in &ts {
                for e in &es {
                    out.push(S::If(true, Box::new(t.clone()), Some(Box::new(e.clone()))));
                    out.push(S::If(false, Box::new(t.clone()), Some(Box::new(e.clone()))));
                }
            }
        }
    }
    memo.insert((k, d), out.clone());
    out
}

/// all statement sequences with exactly `n` nodes in total
fn seqs_exact(n: usize, d: usize, memo: &mut BTreeMap<(usize, usize), Vec<S>>) -> Vec<Vec<S>> {
    if n == 0 {
        return vec![vec![]];
    }
    let mut out = vec![];
    for k in 1..=n {
        let firsts = stmts(k, d, memo);
        if firsts.is_empty() {
            continue;
        }
        let rests = seqs_exact(n - k, d, memo);
        for f in &firsts {
            for r in &rests {
                let mut v = Vec::with_capacity(1 + r.len());
                v.push(f.clone());
                v.extend(r.iter().cloned());
                out.push(v);
            }
        }
    }
    out
}

/// Streams every sequence with at most `max_nodes` nodes to `f` without materialising the
/// whole space (only the sub-spaces of the tails are held in memory).
pub fn for_each_sequence(max_nodes: usize, depth: usize, f: &mut dyn FnMut(&[S])) {
    let mut memo = BTreeMap::new();
    for n in 1..=max_nodes {
        for k in 1..=n {
            let firsts = stmts(k, depth, &mut memo);
            if firsts.is_empty() {
                continue;
            }
            let rests = seqs_exact(n - k, depth, &mut memo);
            let mut buf: Vec<S> = Vec::with_capacity(max_nodes);
            for first in &firsts {
                for r in &rests {
                    buf.clear();
                    buf.push(first.clone());
                    buf.extend(r.iter().cloned());
                    f(&buf);
                }
            }
        }
    }
}

pub fn all_sequences(max_nodes: usize, depth: usize) -> Vec<Vec<S>> {
    let mut memo = BTreeMap::new();
    let mut out = vec![];
    for n in 1..=max_nodes {
        out.extend(seqs_exact(n, depth, &mut memo));
    }
    out
}

// ------------------------------------------------------------------ static fragment analysis

#[derive(Clone, Copy, PartialEq, Debug)]
enum Def {
    Yes,
    Maybe,
}

struct Analysis {
    ctx: Ctx4,
    scopes: Vec<BTreeMap<u8, Def>>,
    globals: BTreeMap<u8, Def>,
    cond: usize,
    global_let_anywhere: [bool; 2],
    popped_inner: [bool; 2],
    /// lets of an else-branch while the then-branch is analysed: (variable, scope depth).
    /// FML compiles the else-branch first, so such a let is already registered when the
    /// then-branch is compiled; a use in the then-branch is not dominated by it.
    foreign: Vec<(u8, usize)>,
    pub shadowing: bool,
    pub read_after_scope: bool,
    pub callee_overlap: bool,
}

fn global_lets(seq: &[S], out: &mut [bool; 2]) {
    // lets at the outermost scope of the top level (conditionals and loops open no scope)
    for s in seq {
        match s {
            S::Let(v) => out[*v as usize] = true,
            S::If(_, t, e) => {
                global_lets(std::slice::from_ref(t), out);
                if let Some(e) = e {
                    global_lets(std::slice::from_ref(e), out);
                }
            }
            S::While(b) => global_lets(std::slice::from_ref(b), out),
            _ => {}
        }
    }
}

impl Analysis {
    fn at_global_scope(&self) -> bool {
        self.ctx == Ctx4::Top && self.scopes.len() == 1
    }
    fn visible(&self, v: u8) -> Option<Def> {
        for s in self.scopes.iter().rev() {
            if let Some(d) = s.get(&v) {
                return Some(*d);
            }
        }
        None
    }
    fn use_var(&mut self, v: u8) -> bool {
        let found_at = self.scopes.iter().rposition(|s| s.contains_key(&v));
        if self.foreign.iter().any(|(fv, dep)| *fv == v && found_at.map(|i| i < *dep).unwrap_or(true)) {
            return false;
        }
        match self.visible(v) {
            Some(Def::Yes) => {
                if self.popped_inner[v as usize] {
                    self.read_after_scope = true;
                }
                true
            }
            Some(Def::Maybe) => false,
            None => self.use_global(v),
        }
    }
    fn use_global(&mut self, v: u8) -> bool {
        match self.globals.get(&v) {
            Some(Def::Yes) => {
                if self.popped_inner[v as usize] {
                    self.read_after_scope = true;
                }
                true
            }
            Some(Def::Maybe) => false,
            // no such global anywhere: the use fails at run time, as the property says;
            // a global that exists only later / elsewhere would read as null in FML
            None => !self.global_let_anywhere[v as usize],
        }
    }
    fn seq(&mut self, seq: &[S]) -> bool {
        for s in seq {
            if !self.stmt(s) {
                return false;
            }
        }
        true
    }
    fn stmt(&mut self, s: &S) -> bool {
        match s {
            S::Let(v) => {
                let def = if self.cond > 0 { Def::Maybe } else { Def::Yes };
                if self.at_global_scope() {
                    if self.globals.contains_key(v) {
                        return false;
                    }
                    self.globals.insert(*v, def);
                } else {
                    if self.scopes.last().unwrap().contains_key(v) {
                        return false;
                    }
                    if self.visible(*v).is_some() || self.globals.contains_key(v) {
                        self.shadowing = true;
                    }
                    self.scopes.last_mut().unwrap().insert(*v, def);
                }
                true
            }
            S::Assign(v) | S::Print(v) => self.use_var(*v),
            S::Call(k) => {
                let caller_defines = self.visible(0).is_some() || self.globals.contains_key(&0);
                if caller_defines {
                    self.callee_overlap = true;
                }
                if *k == 9 {
                    if self.visible(1).is_some() || self.globals.contains_key(&1) {
                        self.callee_overlap = true;
                    }
                    return self.use_global(1);
                }
                match k % 3 {
                    2 => true, // the callee shadows `a` with its own local: needs nothing
                    _ => self.use_global(0),
                }
            }
            S::Block(body) => {
                self.scopes.push(BTreeMap::new());
                let saved = self.cond;
                self.cond = 0;
                let ok = self.seq(body);
                self.cond = saved;
                let inner = self.scopes.pop().unwrap();
                for v in inner.keys() {
                    self.popped_inner[*v as usize] = true;
                }
                ok
            }
            S::If(_, t, e) => {
                self.cond += 1;
                let mark = self.foreign.len();
                if let Some(e) = e {
                    let mut lets = [false, false];
                    global_lets(std::slice::from_ref(e), &mut lets);
                    for v in 0..2u8 {
                        if lets[v as usize] {
                            self.foreign.push((v, self.scopes.len()));
                        }
                    }
                }
                let mut ok = self.stmt(t);
                self.foreign.truncate(mark);
                if ok {
                    if let Some(e) = e {
                        ok = self.stmt(e);
                    }
                }
                self.cond -= 1;
                ok
            }
            S::While(b) => {
                self.cond += 1;
                let ok = self.stmt(b);
                self.cond -= 1;
                ok
            }
        }
    }
}

pub struct Verdict {
    pub nontrivial: bool,
}

/// None: outside the fragment (static and dynamic resolution could differ, or the
/// compiler refuses the program).
pub fn analyse(seq: &[S], ctx: Ctx4) -> Option<Verdict> {
    let mut gl = [false, false];
    if ctx == Ctx4::Top {
        global_lets(seq, &mut gl);
    }
    let mut a = Analysis {
        ctx,
        scopes: vec![BTreeMap::new()],
        globals: BTreeMap::new(),
        cond: 0,
        global_let_anywhere: gl,
        popped_inner: [false, false],
        foreign: vec![],
        shadowing: false,
        read_after_scope: false,
        callee_overlap: false,
    };
    // every context other than Top wraps the statements in a block: an own scope
    if !a.seq(seq) {
        return None;
    }
    Some(Verdict { nontrivial: a.shadowing || a.read_after_scope || a.callee_overlap })
}

// ------------------------------------------------------------------ to IR

struct ToIr {
    k: i32,
}

impl ToIr {
    fn name(v: u8) -> &'static str {
        if v == 0 {
            "a"
        } else {
            "b"
        }
    }
    fn stmt(&mut self, s: &S) -> E {
        match s {
            S::Let(v) => {
                self.k += 1;
                let_(Self::name(*v), E::Int(self.k))
            }
            S::Assign(v) => {
                self.k += 1;
                assign(Self::name(*v), E::Int(self.k))
            }
            S::Print(v) => print(&format!("{}=~\\n", Self::name(*v)), vec![var(Self::name(*v))]),
            S::Call(k) => {
                let names = ["ra", "wa", "sa"];
                if *k < 3 {
                    call(names[*k as usize], vec![])
                } else if *k < 6 {
                    mcall(var("o"), names[*k as usize - 3], vec![])
                } else {
                    // an object literal with one method, created and called right here
                    let body = match *k {
                        6 => print("i.ra=~\\n", vec![var("a")]),
                        7 => assign("a", E::Int(902)),
                        8 => E::Block(vec![let_("a", E::Int(903)), print("i.sa=~\\n", vec![var("a")])]),
                        _ => print("i.rb=~\\n", vec![var("b")]),
                    };
                    mcall(E::Object(None, vec![Member::Method("im".into(), vec![], body)]), "im", vec![])
                }
            }
            S::Block(body) => {
                if body.is_empty() {
                    E::Block(vec![])
                } else {
                    E::Block(body.iter().map(|x| self.stmt(x)).collect())
                }
            }
            S::If(c, t, e) => E::If(bx(E::Bool(*c)), bx(self.stmt(t)), e.as_ref().map(|e| bx(self.stmt(e)))),
            S::While(b) => E::While(bx(call("once", vec![])), bx(self.stmt(b))),
        }
    }
}

pub fn to_program(seq: &[S], ctx: Ctx4) -> Prog {
    let callee = |kind: usize, tag: &str| -> E {
        match kind {
            0 => print(&format!("{}.ra=~\\n", tag), vec![var("a")]),
            1 => assign("a", E::Int(900)),
            _ => E::Block(vec![let_("a", E::Int(901)), print(&format!("{}.sa=~\\n", tag), vec![var("a")])]),
        }
    };
    let mut p: Prog = vec![
        let_("flip", E::Bool(false)),
        E::Fun("once".into(), vec![], bx(assign("flip", bin("==", var("flip"), E::Bool(false))))),
        let_(
            "o",
            E::Object(
                None,
                vec![
                    Member::Method("ra".into(), vec![], callee(0, "m")),
                    Member::Method("wa".into(), vec![], callee(1, "m")),
                    Member::Method("sa".into(), vec![], callee(2, "m")),
                ],
            ),
        ),
    ];
    let mut t = ToIr { k: 0 };
    let body: Vec<E> = seq.iter().map(|s| t.stmt(s)).collect();
    match ctx {
        Ctx4::Top => p.extend(body),
        Ctx4::TopBlock => p.push(E::Block(body)),
        Ctx4::Function => {
            p.push(E::Fun("main".into(), vec![], bx(E::Block(body))));
            p.push(call("main", vec![]));
        }
        Ctx4::Method => {
            p.push(let_("host", E::Object(None, vec![Member::Method("main".into(), vec![], E::Block(body))])));
            p.push(mcall(var("host"), "main", vec![]));
        }
    }
    p.push(print("done\\n", vec![]));
    p.push(E::Fun("ra".into(), vec![], bx(callee(0, "f"))));
    p.push(E::Fun("wa".into(), vec![], bx(callee(1, "f"))));
    p.push(E::Fun("sa".into(), vec![], bx(callee(2, "f"))));
    p
}

fn judge(prog: &Prog, ctx: &mut Ctx, nontrivial: bool, case: &dyn Fn() -> Value) -> Judged {
    ctx.eval();
    let r = refsem::run(prog, refsem::DEFAULT_FUEL);
    if r.outcome == Outcome::Fuel {
        ctx.exclude("reference-fuel");
        return Ok(());
    }
    let src = render::text(prog, render::Style::Minimal);
    let pipe = match fmlrun::pipeline(&src) {
        Ok(p) => p,
        Err(e) => return ctx.settle(Violation::new("source-rejected", format!("{:?}\n{}", e, src), case())),
    };
    let x = fmlrun::run_stepped(&pipe.loaded, 1000 + 400 * r.steps);
    let same_outcome = (r.outcome == Outcome::Ok) == x.exec.is_ok() && !matches!(x.exec, fmlrun::Exec::Runaway);
    if x.out != r.out || !same_outcome {
        return ctx.settle(Violation::new(
            "scoping",
            format!("expected {:?} ({:?})\nactual   {:?} ({:?})", r.out, r.outcome, x.out, x.exec),
            case(),
        ));
    }
    ctx.label(if r.outcome == Outcome::Ok { "outcome:ok" } else { "outcome:out-of-scope-failure" });
    if nontrivial {
        ctx.nontrivial(src.as_bytes());
    }
    Ok(())
}

impl Property for C12 {
    fn id(&self) -> &'static str {
        "C12"
    }
    fn ir_shrinkable(&self) -> bool {
        true
    }
    fn rule(&self) -> String {
        "cases: (bounded-exhaustive) every statement tree over {let a, let b, a <- k, b <- k, print a, print b, begin..end, if true/false then .. [else ..], while once do .., calls of a function / method / method of an object literal written at the call site that reads, assigns or shadows a (or reads b)} with at most N nodes and nesting <= D (quick N=4 D=2, thorough N=5 D=3), in four contexts (top level, top-level block, function body, method body); every let/<- writes a distinct constant; programs outside the fragment (a use not dominated by its definition, same-scope redefinition, a global that exists only later) are filtered by a static analysis and counted; (random) larger programs from the typed generator with the scope-heavy profile (no arithmetic, arrays or objects) and, for a third of them, the scope-mixed profile (as many blocks and lets, with arrays, computed initializers, objects and arithmetic next to them). oracle: reference semantics (output and the failure of out-of-scope uses). non-trivial: contains a shadowing, or a use after leaving the scope of a same-named inner variable, or a callee touching a name the caller also defines; distinct by source".into()
    }
    fn assumptions(&self) -> Vec<String> {
        vec![
            "FML resolves names while compiling and pre-creates globals; the README resolves dynamically. Both coincide exactly on programs whose uses are dominated by their definitions, which is the stated quantifier".into(),
        ]
    }
    fn random_cases(&self, tier: Tier) -> u64 {
        tier.pick(100_000, 2_000_000)
    }
    fn exhaustive_note(&self, tier: Tier) -> Option<String> {
        let (n, d) = tier.pick((4, 2), (5, 3));
        Some(format!("all statement trees with <= {} nodes, nesting <= {}, x 4 contexts (counts in classes `enumerated`, excluded `outside-fragment`); random part not exhaustive", n, d))
    }
    fn fixed_parts(&self, ctx: &mut Ctx) -> Vec<Violation> {
        let mut out = vec![];
        // many blocks in one frame (up to 1000): no enumeration or random program gets there
        let mut k = 0usize;
        for n in crate::gen::scale::MANY_SCOPES.iter() {
            for frame in 0..3 {
                k += 1;
                if !ctx.shard_mine(k) {
                    continue;
                }
                ctx.label("many-scopes-program");
                let prog = crate::gen::scale::many_scopes(*n, frame);
                let case = || json!({"many_scopes": n, "frame": frame, "source": render::pretty(&prog), "ir": serde_json::to_value(&prog).unwrap()});
                if let Err(mut v) = judge(&prog, ctx, true, &case) {
                    v.detail = format!("[{} blocks in one {}] {}", n, ["top-level frame", "function frame", "method frame"][frame], v.detail);
                    out.push(v);
                }
            }
        }
        let (n, d) = ctx.tier.pick((4, 2), (5, 3));
        let mut i = 0usize;
        for_each_sequence(n, d, &mut |seq: &[S]| {
            if out.len() > 10 {
                return;
            }
            for c4 in CONTEXTS.iter() {
                i += 1;
                if !ctx.shard_mine(i) {
                    continue;
                }
                let verdict = match analyse(seq, *c4) {
                    Some(v) => v,
                    None => {
                        ctx.exclude("outside-fragment");
                        continue;
                    }
                };
                ctx.label("enumerated");
                let prog = to_program(seq, *c4);
                let case = || json!({"context": format!("{:?}", c4), "source": render::pretty(&prog), "ir": serde_json::to_value(&prog).unwrap()});
                if let Err(v) = judge(&prog, ctx, verdict.nontrivial, &case) {
                    out.push(v);
                }
                if verdict.nontrivial && i % 997 == 0 {
                    ctx.sample(prog.len(), || json!({"context": format!("{:?}", c4), "source": render::pretty(&prog)}));
                }
            }
        });
        out
    }
    fn judge_tape(&self, tape: &[u8], ctx: &mut Ctx) -> Judged {
        let mut t = Tape::new(tape);
        let mixed = t.chance(85);
        let g = generate(&mut t, &if mixed { Profile::scope_mixed() } else { Profile::scope_heavy() });
        ctx.label(if mixed { "profile:scope-mixed" } else { "profile:scope-heavy" });
        let r = refsem::run(&g.prog, refsem::DEFAULT_FUEL);
        let nontrivial = r.stats.shadow_reads > 0 || (r.stats.user_calls > 0 && r.stats.prints > 1);
        let case = || json!({"tape": hex(tape), "source": render::pretty(&g.prog), "ir": serde_json::to_value(&g.prog).unwrap()});
        let mut res = judge(&g.prog, ctx, nontrivial, &case);
        if res.is_err() && !crate::fragment::check(&g.prog) {
            ctx.exclude("disagreement-on-a-program-outside-the-fragment(static check)");
            res = Ok(());
        }
        if res.is_ok() {
            ctx.label("random-program");
            ctx.sample(tape.len() + 100, || json!({"source": render::pretty(&g.prog), "expected": r.out}));
        }
        res
    }
    fn replay(&self, case: &Value, ctx: &mut Ctx) -> Judged {
        if case.get("ir").is_some() || case.get("source").is_some() {
            let prog = crate::props::c01::prog_from_case(case).map_err(|e| Violation::new("harness-error", e, case.clone()))?;
            let c = case.clone();
            return judge(&prog, ctx, false, &move || c.clone());
        }
        if let Some(t) = case["tape"].as_str() {
            if let Some(bytes) = crate::tape::unhex(t) {
                return self.judge_tape(&bytes, ctx);
            }
        }
        Err(Violation::new("harness-error", "unusable replay case", case.clone()))
    }
}
