//! C11 — compilation and execution are deterministic.

use crate::cli;
use crate::fmlrun;
use crate::gen::prog::{generate, Profile};
use crate::harness::*;
use crate::ir::*;
use crate::render;
use crate::tape::{hex, Tape};
use serde_json::{json, Value};
use std::cell::RefCell;

pub struct C11;

thread_local! {
    static SCRATCH: RefCell<Option<cli::Scratch>> = RefCell::new(None);
    static COUNTER: RefCell<u64> = RefCell::new(0);
}

fn name_tables(p: &Prog) -> usize {
    let globals = p.iter().filter(|e| matches!(e, E::Let(..))).count();
    let funs = p.iter().filter(|e| matches!(e, E::Fun(..))).count();
    fn max_fields(e: &E) -> usize {
        let own = match e {
            E::Object(_, ms) => ms.len(),
            _ => 0,
        };
        e.children().iter().map(|c| max_fields(c)).max().unwrap_or(0).max(own)
    }
    let fields = p.iter().map(max_fields).max().unwrap_or(0);
    globals.max(funs).max(fields)
}

fn judge_source(src: &str, ctx: &mut Ctx, nontrivial: bool, pause: bool, case: &dyn Fn() -> Value) -> Judged {
    ctx.eval();
    let tag = if cfg!(debug_assertions) { "dev" } else { "release" };
    let ast = match fmlrun::parse(src) {
        Ok(a) => a,
        Err(e) => return refused_alike(src, ctx, "parse", &e, case),
    };
    // ---- in-process: the same AST compiled 5 times (every HashMap::new() draws a new RandomState)
    let mut images: Vec<Vec<u8>> = vec![];
    for _ in 0..5 {
        let compiled = match fmlrun::compile(&ast) {
            Ok(p) => p,
            Err(e) => return refused_alike(src, ctx, "compile", &e, case),
        };
        match fmlrun::serialize(&compiled) {
            Ok(b) => images.push(b),
            // compiles (and runs) but has no image, e.g. a pool of 65536 constants whose count
            // does not fit the format: `fml compile` must refuse it in every build
            Err(e) => return unserializable_alike(src, &compiled, ctx, &e, case),
        }
    }
    if images.iter().any(|b| b != &images[0]) {
        return ctx.settle(Violation::new("compile-nondeterministic", format!("the same AST compiled to different images in one process ({} engine)", tag), case()).with("where", "in-process"));
    }
    let image = &images[0];
    let p = fmlrun::load(image).map_err(|e| Violation::new("load-failed", e, case()))?;
    let fuel = 3_000_000;
    let first = fmlrun::run_stepped(&p, fuel);
    if matches!(first.exec, fmlrun::Exec::Runaway) {
        ctx.exclude("does-not-terminate-within-fuel");
        return Ok(());
    }
    for _ in 0..2 {
        let again = fmlrun::run_stepped(&p, fuel);
        if again.out != first.out || again.exec.class() != first.exec.class() {
            return ctx.settle(
                Violation::new("run-nondeterministic", format!("two runs of the same bytecode differ in one process ({} engine):\n{:?}\n{:?}", tag, first.out, again.out), case())
                    .with("where", "in-process"),
            );
        }
    }
    // ---- fresh processes, both build profiles, different environments
    let res: Result<(), Violation> = SCRATCH.with(|s| {
        let mut s = s.borrow_mut();
        if s.is_none() {
            *s = Some(cli::Scratch::new("C11", tag));
        }
        let sc = s.as_mut().unwrap();
        let rel = cli::fml_release();
        let dbg = cli::fml_debug();
        let fsrc = sc.file("p.fml");
        let fjson = sc.file("p.json");
        std::fs::write(&fsrc, src).unwrap();
        let herr = |e: String| Violation::new("harness-error", e, json!({}));
        let o = cli::run_fml(&rel, &["parse", fsrc.to_str().unwrap(), "-o", fjson.to_str().unwrap()]).map_err(|e| herr(e.to_string()))?;
        if !o.status.success() {
            return Err(herr(format!("fml parse failed: {}", o.err_str())));
        }
        let other_dir = sc.dir.join("elsewhere");
        let _ = std::fs::create_dir_all(&other_dir);
        let mut k = 0;
        let mut refused = 0;
        for (bin, btag) in [(&rel, "release"), (&rel, "release"), (&rel, "release"), (&dbg, "debug")].iter() {
            k += 1;
            let fo = sc.file(&format!("o{}.bc", k));
            let mut inv = cli::Invocation::new(bin, &["compile", fjson.to_str().unwrap(), "-o", fo.to_str().unwrap()]);
            if k == 3 {
                inv = inv.cwd(&other_dir).env("HOME", "/nonexistent").env("LANG", "tr_TR.UTF-8").env("LC_ALL", "C").env("TZ", "Pacific/Kiritimati").env("FML_EXTRA", "1");
            }
            let _ = std::fs::remove_file(&fo);
            let o = inv.run().map_err(|e| herr(e.to_string()))?;
            let got = std::fs::read(&fo).unwrap_or_default();
            if !o.status.success() && o.err_str().contains("recursion limit exceeded") {
                // the AST interchange crates refuse deep ASTs (C06's known finding F6); a
                // refusal is deterministic, which is all this property asks
                refused += 1;
                continue;
            }
            if refused > 0 || !o.status.success() || &got != image {
                return Err(Violation::new(
                    "compile-nondeterministic",
                    format!(
                        "`fml compile` ({} binary, run {}) produced {} bytes (status {:?}); the {} engine compiled the same AST to {} bytes; first difference at {:?}",
                        btag,
                        k,
                        got.len(),
                        o.status,
                        tag,
                        image.len(),
                        crate::props::c03::first_diff(&got, image)
                    ),
                    case(),
                )
                .with("where", "processes"));
            }
        }
        if refused > 0 && refused != 4 {
            return Err(Violation::new("compile-nondeterministic", format!("`fml compile` refused the AST in {} of 4 runs", refused), case()).with("where", "processes"));
        }
        let mut k = 0;
        for (bin, btag) in [(&rel, "release"), (&rel, "release"), (&dbg, "debug"), (&rel, "release")].iter() {
            k += 1;
            let mut inv = cli::Invocation::new(bin, &["run", fsrc.to_str().unwrap()]);
            if k == 4 {
                inv = inv.cwd(&other_dir).env("HOME", "/nonexistent").env("LANG", "tr_TR.UTF-8").env("TZ", "Pacific/Kiritimati").env("RUST_LOG", "trace");
            }
            if k == 2 && pause {
                std::thread::sleep(std::time::Duration::from_millis(1100));
            }
            let o = inv.run().map_err(|e| herr(e.to_string()))?;
            let same_status = o.status.success() == first.exec.is_ok() && !matches!(o.status, cli::Status::Signal(_));
            if o.out_str() != first.out || !same_status {
                return Err(Violation::new(
                    "run-nondeterministic",
                    format!("`fml run` ({} binary, run {}): status {:?} stdout {:?}\nin-process ({} engine): {:?} {:?}", btag, k, o.status, o.out_str(), tag, first.exec, first.out),
                    case(),
                )
                .with("where", "processes"));
            }
        }
        Ok(())
    });
    if let Err(v) = res {
        return ctx.settle(v);
    }
    if pause {
        ctx.label("with-1.1s-pause");
    }
    ctx.label(&format!("engine:{}", tag));
    if nontrivial {
        ctx.nontrivial(src.as_bytes());
    }
    Ok(())
}

/// The engine (one build profile, in-process) refuses `src` before running it.  Being refused is
/// fine; being refused by one build and accepted by another, or in one run and not the next, is
/// not: both binaries must refuse it too, every time, without output and without a signal.
fn refused_alike(src: &str, ctx: &mut Ctx, stage: &str, why: &str, case: &dyn Fn() -> Value) -> Judged {
    let tag = if cfg!(debug_assertions) { "dev" } else { "release" };
    let res: Result<(), Violation> = SCRATCH.with(|s| {
        let mut s = s.borrow_mut();
        if s.is_none() {
            *s = Some(cli::Scratch::new("C11", tag));
        }
        let sc = s.as_mut().unwrap();
        let fsrc = sc.file("refused.fml");
        std::fs::write(&fsrc, src).unwrap();
        let herr = |e: String| Violation::new("harness-error", e, json!({}));
        for (bin, btag) in [(cli::fml_release(), "release"), (cli::fml_debug(), "debug"), (cli::fml_release(), "release")].iter() {
            let o = cli::run_fml(bin, &["run", fsrc.to_str().unwrap()]).map_err(|e| herr(e.to_string()))?;
            if o.status.success() || matches!(o.status, cli::Status::Signal(_)) || !o.out_str().is_empty() {
                return Err(Violation::new(
                    "refusal-differs",
                    format!("the {} engine refuses the program at the {} stage ({}), but `fml run` ({} binary) ends with status {:?} and stdout {:?}", tag, stage, why.chars().take(200).collect::<String>(), btag, o.status, o.out_str().chars().take(200).collect::<String>()),
                    case(),
                )
                .with("where", "processes")
                .with("stage", stage));
            }
        }
        Ok(())
    });
    if let Err(v) = res {
        return ctx.settle(v);
    }
    ctx.label(&format!("refused-alike:{}", stage));
    ctx.label(&format!("engine:{}", tag));
    Ok(())
}

/// The program compiles but the serializer refuses it.  Then `fml compile` must refuse it in both
/// builds (no file contents, no signal) and `fml run`, which needs no image, must behave alike
/// in both builds and like the in-process run.
fn unserializable_alike(src: &str, p: &crate::bytecode::program::Program, ctx: &mut Ctx, why: &str, case: &dyn Fn() -> Value) -> Judged {
    let tag = if cfg!(debug_assertions) { "dev" } else { "release" };
    let first = fmlrun::run_stepped(p, 3_000_000);
    if matches!(first.exec, fmlrun::Exec::Runaway) {
        ctx.exclude("does-not-terminate-within-fuel");
        return Ok(());
    }
    let res: Result<(), Violation> = SCRATCH.with(|s| {
        let mut s = s.borrow_mut();
        if s.is_none() {
            *s = Some(cli::Scratch::new("C11", tag));
        }
        let sc = s.as_mut().unwrap();
        let fsrc = sc.file("unser.fml");
        let fjson = sc.file("unser.json");
        std::fs::write(&fsrc, src).unwrap();
        let herr = |e: String| Violation::new("harness-error", e, json!({}));
        let rel = cli::fml_release();
        let dbg = cli::fml_debug();
        let o = cli::run_fml(&rel, &["parse", fsrc.to_str().unwrap(), "-o", fjson.to_str().unwrap()]).map_err(|e| herr(e.to_string()))?;
        if !o.status.success() {
            return Err(herr(format!("fml parse failed: {}", o.err_str())));
        }
        for (bin, btag) in [(&rel, "release"), (&dbg, "debug")].iter() {
            let fo = sc.file("unser.bc");
            let _ = std::fs::remove_file(&fo);
            let o = cli::run_fml(bin, &["compile", fjson.to_str().unwrap(), "-o", fo.to_str().unwrap()]).map_err(|e| herr(e.to_string()))?;
            if o.status.success() || matches!(o.status, cli::Status::Signal(_)) {
                return Err(Violation::new(
                    "refusal-differs",
                    format!("the {} engine cannot serialize the program ({}), but `fml compile` ({} binary) ends with status {:?} and a file of {} bytes", tag, why.chars().take(200).collect::<String>(), btag, o.status, std::fs::metadata(&fo).map(|m| m.len()).unwrap_or(0)),
                    case(),
                )
                .with("where", "processes")
                .with("stage", "serialize"));
            }
        }
        for (bin, btag) in [(&rel, "release"), (&dbg, "debug")].iter() {
            let o = cli::run_fml(bin, &["run", fsrc.to_str().unwrap()]).map_err(|e| herr(e.to_string()))?;
            let same_status = o.status.success() == first.exec.is_ok() && !matches!(o.status, cli::Status::Signal(_));
            if o.out_str() != first.out || !same_status {
                return Err(Violation::new(
                    "run-nondeterministic",
                    format!("`fml run` ({} binary): status {:?} stdout {:?}\nin-process ({} engine): {:?} {:?}", btag, o.status, o.out_str().chars().take(200).collect::<String>(), tag, first.exec, first.out.chars().take(200).collect::<String>()),
                    case(),
                )
                .with("where", "processes"));
            }
        }
        Ok(())
    });
    if let Err(v) = res {
        return ctx.settle(v);
    }
    ctx.label("unserializable-alike");
    ctx.label(&format!("engine:{}", tag));
    Ok(())
}

/// AST files nobody's parser writes: `fml compile` reads whatever tree the file holds.  Empty
/// statement lists, a tree without the `Top` wrapper, wrappers inside wrappers, empty member and
/// argument lists.  What the compiler makes of them is not the question; that every build and
/// every run makes the same of them is.
fn odd_asts() -> Vec<(&'static str, crate::parser::AST)> {
    use crate::parser::{Identifier, AST};
    let b = |a: AST| Box::new(a);
    let id = |s: &str| Identifier(s.to_string());
    vec![
        ("top-empty", AST::Top(vec![])),
        ("top-of-empty-block", AST::Top(vec![b(AST::Block(vec![]))])),
        ("top-of-two-empty-blocks", AST::Top(vec![b(AST::Block(vec![])), b(AST::Block(vec![]))])),
        ("no-top-wrapper-integer", AST::Integer(7)),
        ("no-top-wrapper-block", AST::Block(vec![b(AST::Integer(1)), b(AST::Integer(2))])),
        ("no-top-wrapper-print", AST::Print { format: "x\\n".into(), arguments: vec![] }),
        ("top-inside-top", AST::Top(vec![b(AST::Top(vec![b(AST::Integer(1))])), b(AST::Print { format: "~\\n".into(), arguments: vec![b(AST::Integer(2))] })])),
        ("top-inside-block", AST::Top(vec![b(AST::Block(vec![b(AST::Top(vec![]))]))])),
        ("function-only", AST::Top(vec![b(AST::Function { name: id("f"), parameters: vec![], body: b(AST::Null) })])),
        ("function-inside-block", AST::Top(vec![b(AST::Block(vec![b(AST::Function { name: id("f"), parameters: vec![], body: b(AST::Integer(1)) })])), b(AST::CallFunction { name: id("f"), arguments: vec![] })])),
        ("function-inside-function", AST::Top(vec![b(AST::Function { name: id("f"), parameters: vec![], body: b(AST::Function { name: id("g"), parameters: vec![], body: b(AST::Integer(1)) }) })])),
        ("object-without-members", AST::Top(vec![b(AST::Object { extends: b(AST::Null), members: vec![] })])),
        ("object-with-a-non-member", AST::Top(vec![b(AST::Object { extends: b(AST::Null), members: vec![b(AST::Integer(1))] })])),
        ("print-empty-format", AST::Top(vec![b(AST::Print { format: String::new(), arguments: vec![] })])),
        ("loop-of-empty-block", AST::Top(vec![b(AST::Loop { condition: b(AST::Boolean(false)), body: b(AST::Block(vec![])) })])),
        ("conditional-of-empty-blocks", AST::Top(vec![b(AST::Conditional { condition: b(AST::Boolean(true)), consequent: b(AST::Block(vec![])), alternative: b(AST::Block(vec![])) })])),
        ("variable-named-like-a-temporary", AST::Top(vec![b(AST::Variable { name: id("::size_0"), value: b(AST::Integer(1)) }), b(AST::Array { size: b(AST::Integer(1)), value: b(AST::Block(vec![b(AST::Integer(2))])) })])),
        ("empty-identifier", AST::Top(vec![b(AST::Variable { name: id(""), value: b(AST::Integer(1)) }), b(AST::AccessVariable { name: id("") })])),
    ]
}

fn judge_odd_ast(name: &str, ast: &crate::parser::AST, ctx: &mut Ctx) -> Judged {
    ctx.eval();
    let tag = if cfg!(debug_assertions) { "dev" } else { "release" };
    let text = serde_json::to_string(ast).map_err(|e| Violation::new("harness-error", e.to_string(), json!({})))?;
    let case = || json!({"odd_ast": name, "ast_json": text});
    // in-process, five times: all refusals, or all the same bytes
    let mut outcomes: Vec<Option<Vec<u8>>> = vec![];
    for _ in 0..5 {
        outcomes.push(fmlrun::compile(ast).and_then(|p| fmlrun::serialize(&p)).ok());
    }
    if outcomes.iter().any(|o| o != &outcomes[0]) {
        return ctx.settle(Violation::new("compile-nondeterministic", format!("hand-written AST `{}` compiles differently from one time to the next in one process ({} engine)", name, tag), case()).with("where", "in-process"));
    }
    let res: Result<(), Violation> = SCRATCH.with(|s| {
        let mut s = s.borrow_mut();
        if s.is_none() {
            *s = Some(cli::Scratch::new("C11", tag));
        }
        let sc = s.as_mut().unwrap();
        let fjson = sc.file("odd.json");
        std::fs::write(&fjson, &text).unwrap();
        let herr = |e: String| Violation::new("harness-error", e, json!({}));
        let mut seen: Vec<(String, bool, Vec<u8>)> = vec![];
        for (bin, btag) in [(cli::fml_release(), "release"), (cli::fml_debug(), "debug"), (cli::fml_release(), "release"), (cli::fml_debug(), "debug")].iter() {
            let fo = sc.file("odd.bc");
            let _ = std::fs::remove_file(&fo);
            let o = cli::run_fml(bin, &["compile", fjson.to_str().unwrap(), "-o", fo.to_str().unwrap()]).map_err(|e| herr(e.to_string()))?;
            if let cli::Status::Signal(sig) = o.status {
                return Err(Violation::new("compile-nondeterministic", format!("hand-written AST `{}`: `fml compile` ({} binary) dies on signal {}", name, btag, sig), case()).with("where", "processes"));
            }
            let bytes = if o.status.success() { std::fs::read(&fo).unwrap_or_default() } else { vec![] };
            seen.push((btag.to_string(), o.status.success(), bytes));
        }
        for x in &seen[1..] {
            if x.1 != seen[0].1 || x.2 != seen[0].2 {
                return Err(Violation::new(
                    "compile-nondeterministic",
                    format!("hand-written AST `{}`: `fml compile` gives {} / {} bytes in the {} binary and {} / {} bytes in the {} binary", name, if seen[0].1 { "success" } else { "refusal" }, seen[0].2.len(), seen[0].0, if x.1 { "success" } else { "refusal" }, x.2.len(), x.0),
                    case(),
                )
                .with("where", "processes"));
            }
        }
        // and like this engine
        let mine = outcomes[0].clone();
        if mine.is_some() != seen[0].1 || (mine.is_some() && mine.as_ref().unwrap() != &seen[0].2) {
            return Err(Violation::new("compile-nondeterministic", format!("hand-written AST `{}`: the {} engine {} it, `fml compile` ({} binary) {}", name, tag, if mine.is_some() { "compiles" } else { "refuses" }, seen[0].0, if seen[0].1 { "compiles it (to other bytes, if both compile)" } else { "refuses it" }), case()).with("where", "processes"));
        }
        Ok(())
    });
    if let Err(v) = res {
        return ctx.settle(v);
    }
    ctx.label("hand-written-ast");
    ctx.label(&format!("engine:{}", tag));
    ctx.nontrivial(format!("odd|{}|{}", name, tag).as_bytes());
    Ok(())
}

/// Bytecode files only an independent writer produces, whose meaning must not depend on the
/// order a hash map happens to iterate in: one label name marking two places (the FML
/// compiler numbers its labels, other compilers need not).  Whatever a build makes of such a
/// file - FML takes the later definition - every run of every build must make the same of it.
fn odd_files() -> Vec<(&'static str, crate::bc::model::Model)> {
    use crate::bc::model::{Const, Ins};
    use crate::props::c05::Asm;
    let mut out = vec![];
    // (1) one constant used by two label instructions of the entry method, jumped to once
    {
        let mut a = Asm::new();
        let l = a.s("twice");
        let end = a.s("end");
        a.e(Ins::Goto(l));
        a.e(Ins::Label(l));
        a.print("first\\n", 0);
        a.e(Ins::Goto(end));
        a.e(Ins::Label(l));
        a.print("second\\n", 0);
        a.e(Ins::Label(end));
        out.push(("one-label-name-two-places", a.finish(false)));
    }
    // (2) two equal string constants, each naming a label, in two different methods
    {
        let mut a = Asm::new();
        let null = a.c(Const::Null);
        a.consts.push(Const::Str("same".into()));
        let l1 = (a.consts.len() - 1) as u16;
        a.consts.push(Const::Str("same".into()));
        let l2 = (a.consts.len() - 1) as u16;
        let f1 = a.s("in f\\n");
        let f = a.function("f", 0, 0, vec![Ins::Label(l1), Ins::Print(f1, 0), Ins::Return]);
        let _ = f;
        let fname = a.s("f");
        a.e(Ins::Call(fname, 0));
        a.e(Ins::Drop);
        a.e(Ins::Lit(null));
        a.e(Ins::Branch(l2)); // null is falsy: not taken; the goto below is
        a.e(Ins::Goto(l2));
        a.print("skipped\\n", 0);
        a.e(Ins::Label(l2));
        a.print("entry label\\n", 0);
        out.push(("two-equal-constants-two-labels", a.finish(false)));
    }
    // (3) many names, each twice: sixteen chances per run for an order to show
    {
        let mut a = Asm::new();
        for k in 0..16 {
            let l = a.s(&format!("L{}", k));
            let after = a.s(&format!("after{}", k));
            a.e(Ins::Goto(l));
            a.e(Ins::Label(l));
            a.print(&format!("{}a ", k), 0);
            a.e(Ins::Goto(after));
            a.e(Ins::Label(l));
            a.print(&format!("{}b ", k), 0);
            a.e(Ins::Label(after));
        }
        a.print("\\n", 0);
        out.push(("sixteen-names-twice-each", a.finish(false)));
    }
    out
}

fn judge_odd_file(name: &str, m: &crate::bc::model::Model, ctx: &mut Ctx) -> Judged {
    ctx.eval();
    let tag = if cfg!(debug_assertions) { "dev" } else { "release" };
    let bytes = crate::bc::writer::write(m);
    let case = || json!({"odd_file": name, "bytes": hex(&bytes)});
    // in-process: loaded and run five times
    let mut seen: Vec<(String, String)> = vec![];
    for _ in 0..5 {
        let r = match fmlrun::load(&bytes) {
            Ok(p) => {
                let x = fmlrun::run_stepped(&p, 100_000);
                (format!("run:{}", x.exec.class()), x.out)
            }
            Err(_) => ("refused".to_string(), String::new()),
        };
        seen.push(r);
    }
    if seen.iter().any(|x| x != &seen[0]) {
        return ctx.settle(Violation::new("run-nondeterministic", format!("file `{}` behaves differently from one load to the next in one process ({} engine): {:?}", name, tag, seen), case()).with("where", "in-process"));
    }
    let res: Result<(), Violation> = SCRATCH.with(|s| {
        let mut s = s.borrow_mut();
        if s.is_none() {
            *s = Some(cli::Scratch::new("C11", tag));
        }
        let sc = s.as_mut().unwrap();
        let f = sc.file("odd.bc");
        std::fs::write(&f, &bytes).unwrap();
        let herr = |e: String| Violation::new("harness-error", e, json!({}));
        let mut outs: Vec<(String, bool, String)> = vec![];
        let rel = cli::fml_release();
        let dbg = cli::fml_debug();
        for k in 0..14 {
            let (bin, btag) = if k % 4 == 3 { (&dbg, "debug") } else { (&rel, "release") };
            let o = cli::run_fml(bin, &["execute", f.to_str().unwrap()]).map_err(|e| herr(e.to_string()))?;
            if let cli::Status::Signal(sig) = o.status {
                return Err(Violation::new("run-nondeterministic", format!("file `{}`: `fml execute` ({} binary) dies on signal {}", name, btag, sig), case()).with("where", "processes"));
            }
            outs.push((btag.to_string(), o.status.success(), o.out_str()));
        }
        for x in &outs[1..] {
            if x.1 != outs[0].1 || x.2 != outs[0].2 {
                return Err(Violation::new("run-nondeterministic", format!("file `{}`: `fml execute` prints {:?} ({}) in one run ({} binary) and {:?} ({}) in another ({} binary)", name, outs[0].2, outs[0].1, outs[0].0, x.2, x.1, x.0), case()).with("where", "processes"));
            }
        }
        Ok(())
    });
    if let Err(v) = res {
        return ctx.settle(v);
    }
    ctx.label("hand-written-file");
    ctx.nontrivial(format!("oddfile|{}|{}", name, tag).as_bytes());
    Ok(())
}

impl Property for C11 {
    fn id(&self) -> &'static str {
        "C11"
    }
    fn rule(&self) -> String {
        "cases: programs from the typed generator with the many-names profile (>=8 globals, objects with 8 printed fields, many functions and labels) and every .fml file of the repository. For each, in BOTH engine profiles (dev, release): the same AST compiled 5 times in one process (fresh hash seeds) -> identical bytes; the loaded program run 3 times -> identical output; then fresh processes: `fml compile` 3x release + 1x debug binary (one run with different cwd, HOME, LANG, LC_ALL, TZ and an extra variable) -> bytes identical to the in-process image; `fml run` 2x release, 1x debug, 1x release in a different environment (a sample with a 1.1 s pause) -> stdout and zero/non-zero status identical to the in-process run. non-trivial: some name table of the program (globals, functions, members of one object) has >= 8 entries; distinct by source".into()
    }
    fn assumptions(&self) -> Vec<String> {
        vec!["heap-log timestamps are not part of this property".into(), "an order dependence that shows with probability p per run is caught with 1-(1-p)^k over k repetitions; for >= 8 names p is close to 1".into()]
    }
    fn both_profiles(&self) -> bool {
        true
    }
    fn random_cases(&self, tier: Tier) -> u64 {
        tier.pick(1_600, 40_000)
    }
    fn max_shrink_iters(&self) -> u32 {
        60
    }
    fn fixed_parts(&self, ctx: &mut Ctx) -> Vec<Violation> {
        let mut out = vec![];
        for (i, f) in crate::tools::repo_fml_files(crate::FML_ROOT).iter().enumerate() {
            if !ctx.shard_mine(i) {
                continue;
            }
            if let Ok(src) = std::fs::read_to_string(f) {
                ctx.label("repo-corpus-program");
                let case = || json!({"file": f.to_string_lossy(), "source": src});
                if let Err(mut v) = judge_source(&src, ctx, true, i % 8 == 0, &case) {
                    v.detail = format!("[in-repo program {}] {}", f.display(), v.detail);
                    out.push(v);
                }
            }
        }
        // programs that sit on the widths of the bytecode format: accepted or refused, but alike
        for (i, (name, m)) in odd_files().iter().enumerate() {
            if !ctx.shard_mine(i + 4) {
                continue;
            }
            if let Err(v) = judge_odd_file(name, m, ctx) {
                out.push(v);
            }
        }
        for (i, (name, ast)) in odd_asts().iter().enumerate() {
            if !ctx.shard_mine(i + 2) {
                continue;
            }
            if let Err(v) = judge_odd_ast(name, ast, ctx) {
                out.push(v);
            }
        }
        let mut limit_programs = crate::gen::limits::programs();
        if ctx.tier == Tier::Thorough {
            limit_programs.extend(crate::gen::limits::huge_programs());
        }
        for (i, (name, src)) in limit_programs.into_iter().enumerate().rev() {
            if !ctx.shard_mine(i) {
                continue;
            }
            ctx.label("limit-program");
            let case = || json!({"limit_program": name, "source": src});
            if let Err(mut v) = judge_source(&src, ctx, true, false, &case) {
                v.detail = format!("[limit program {}] {}", name, v.detail);
                out.push(v);
            }
        }
        out
    }
    fn judge_tape(&self, tape: &[u8], ctx: &mut Ctx) -> Judged {
        let mut t = Tape::new(tape);
        let g = generate(&mut t, &Profile::many_names());
        let src = render::text(&g.prog, render::Style::Minimal);
        let pause = tape_sample(tape, 97);
        let case = || json!({"tape": hex(tape), "source": render::pretty(&g.prog)});
        let nt = name_tables(&g.prog) >= 8;
        let r = judge_source(&src, ctx, nt, pause, &case);
        if r.is_ok() {
            ctx.sample(src.len(), || json!({"source": render::pretty(&g.prog), "name_table_max": name_tables(&g.prog)}));
        }
        r
    }
    fn replay(&self, case: &Value, ctx: &mut Ctx) -> Judged {
        if let Some(t) = case["tape"].as_str() {
            if let Some(bytes) = crate::tape::unhex(t) {
                return self.judge_tape(&bytes, ctx);
            }
        }
        if let Some(name) = case["odd_file"].as_str() {
            if let Some((n, m)) = odd_files().into_iter().find(|(n, _)| *n == name) {
                return judge_odd_file(n, &m, ctx);
            }
        }
        if let Some(name) = case["odd_ast"].as_str() {
            if let Some((n, ast)) = odd_asts().into_iter().find(|(n, _)| *n == name) {
                return judge_odd_ast(n, &ast, ctx);
            }
        }
        if let Some(src) = case["source"].as_str() {
            let c = case.clone();
            return judge_source(src, ctx, true, false, &move || c.clone());
        }
        Err(Violation::new("harness-error", "unusable replay case", case.clone()))
    }
}
