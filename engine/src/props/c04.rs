//! C04 — files follow the documented Feeny/FML layout: FML's writer against an
//! independent reader, FML's reader against an independent writer.

use crate::bc::model::{Const, Ins, Model};
use crate::bc::project::project;
use crate::bc::{reader, writer};
use crate::bytecode::program::Program;
use crate::fmlrun;
use crate::gen::model::{self as gm, ModelOpts};
use crate::gen::prog::{generate, Profile};
use crate::harness::*;
use crate::props::c03::{diff_models, first_diff, summary};
use crate::render;
use crate::tape::{hex, Tape};
use serde_json::{json, Value};

pub struct C04;

/// width / endianness / length-unit sensitive content
fn layout_sensitive(m: &Model) -> bool {
    let wide = |x: u16| x >= 256;
    m.consts.len() >= 256
        || m.globals.iter().any(|g| wide(*g))
        || wide(m.entry)
        || m.consts.iter().any(|c| match c {
            Const::Str(s) => !s.is_ascii(),
            Const::Int(i) => *i < 0 || *i >= 256,
            Const::Slot(n) => wide(*n),
            Const::Class(v) => v.iter().any(|x| wide(*x)),
            Const::Method { name, nlocals, code, .. } => {
                wide(*name)
                    || *nlocals >= 256
                    || code.len() >= 256
                    || code.iter().any(|i| match i {
                        Ins::Label(a) | Ins::Lit(a) | Ins::Object(a) | Ins::GetSlot(a) | Ins::SetSlot(a) | Ins::SetLocal(a) | Ins::GetLocal(a)
                        | Ins::SetGlobal(a) | Ins::GetGlobal(a) | Ins::Branch(a) | Ins::Goto(a) | Ins::Print(a, _) | Ins::CallSlot(a, _)
                        | Ins::Call(a, _) => wide(*a),
                        _ => false,
                    })
            }
            _ => false,
        })
}

/// FML's writer is decoded by the independent reader and must denote `p`.
pub fn writer_conformance(p: &Program, case: &dyn Fn() -> Value, ctx: &mut Ctx, origin: &str) -> Judged {
    let proj = project(p).map_err(|e| Violation::new("projection-failed", e, case()))?;
    let bytes = match fmlrun::serialize(p) {
        Ok(b) => b,
        Err(e) => return ctx.settle(Violation::new("serialize-failed", e, case()).with("origin", origin)),
    };
    let mine = match reader::read(&bytes) {
        Ok(m) => m,
        Err(e) => {
            return ctx.settle(
                Violation::new("writer-layout", format!("the independent reader of the documented layout rejects FML's output: {}", e), case())
                    .with("origin", origin),
            )
        }
    };
    if mine != proj.model {
        return ctx.settle(
            Violation::new(
                "writer-layout",
                format!("FML's output denotes a different program under the documented layout:\n{}", diff_models(&proj.model, &mine)),
                case(),
            )
            .with("origin", origin),
        );
    }
    // the layout has no redundancy: the image is canonical
    let canon = writer::write(&proj.model);
    if canon != bytes {
        return ctx.settle(
            Violation::new(
                "writer-layout",
                format!("FML's image differs from the canonical image of the same program ({} vs {} bytes, first difference at {:?})", bytes.len(), canon.len(), first_diff(&bytes, &canon)),
                case(),
            )
            .with("origin", origin),
        );
    }
    if layout_sensitive(&proj.model) {
        ctx.nontrivial(&bytes);
    }
    Ok(())
}

/// A file written by the independent writer is loaded as the program it denotes.
pub fn reader_conformance(m: &Model, case: &dyn Fn() -> Value, ctx: &mut Ctx) -> Judged {
    let bytes = writer::write(m);
    let p = match fmlrun::load(&bytes) {
        Ok(p) => p,
        Err(e) => return ctx.settle(Violation::new("reader-layout", format!("FML cannot load a file in the documented layout: {}", e), case())),
    };
    let proj = project(&p).map_err(|e| Violation::new("projection-failed", e, case()))?;
    if &proj.model != m {
        return ctx.settle(Violation::new("reader-layout", format!("FML loads a different program than the file denotes:\n{}", diff_models(m, &proj.model)), case()));
    }
    let again = match fmlrun::serialize(&p) {
        Ok(b) => b,
        Err(e) => return ctx.settle(Violation::new("serialize-failed", e, case())),
    };
    if again != bytes {
        return ctx.settle(Violation::new(
            "reader-layout",
            format!("re-serialized image differs from the canonical file ({} vs {} bytes, first difference at {:?})", again.len(), bytes.len(), first_diff(&again, &bytes)),
            case(),
        ));
    }
    if layout_sensitive(m) {
        ctx.nontrivial(&bytes);
    }
    Ok(())
}

impl Property for C04 {
    fn id(&self) -> &'static str {
        "C04"
    }
    fn fuzzable(&self) -> bool {
        true
    }
    fn rule(&self) -> String {
        "cases: domains A (compiler outputs) and B (models straight from the tape, ~10% with pools > 256 constants, methods >= 256 and > 10000 instructions) as in C03. writer conformance: an independent strict reader of the documented layout (no trailing bytes) decodes FML's output to exactly project(P) and the image equals the canonical image; reader conformance: FML loads the independent writer's image as exactly that model and re-serializes it byte-identically. non-trivial: the image contains a multi-byte UTF-8 string, or an index/count >= 256, or a negative or >= 256 integer, or a method with >= 256 instructions; distinct by image".into()
    }
    fn assumptions(&self) -> Vec<String> {
        vec!["my reader/writer encode the layout exactly as the property statement lists it (tags, widths, little endian, byte-length strings, opcode numbers 0x00 label .. 0x10 drop)".into()]
    }
    fn random_cases(&self, tier: Tier) -> u64 {
        tier.pick(240_000, 6_000_000)
    }
    fn max_tape(&self) -> usize {
        900
    }
    fn fixed_parts(&self, ctx: &mut Ctx) -> Vec<Violation> {
        let mut out = vec![];
        // self-check of my own codec (harness error, never a violation)
        if ctx.index == 0 {
            for s in 0..200u64 {
                let tape = crate::tools::random_tape(s + 77, 500);
                let mut t = Tape::new(&tape);
                let m = gm::generate(&mut t, &ModelOpts::default());
                match reader::read(&writer::write(&m)) {
                    Ok(m2) if m2 == m => {}
                    other => {
                        out.push(Violation::new("harness-error", format!("own reader(writer(m)) != m: {:?}", other.err()), json!({})));
                        return out;
                    }
                }
            }
        }
        // compiler outputs at the widths of the format (253..257 arguments, members, locals; 65500..65537
        // constants; 65533..65537 locals): the compiler or the serializer may refuse such a
        // program, but a file that is written must follow the layout
        let mut limit_programs = crate::gen::limits::programs();
        limit_programs.extend(crate::gen::limits::huge_programs());
        for (i, (name, src)) in limit_programs.into_iter().enumerate() {
            if !ctx.shard_mine(i + 7) {
                continue;
            }
            let p = match fmlrun::parse(&src).and_then(|ast| fmlrun::compile(&ast)) {
                Ok(p) => p,
                Err(_) => {
                    ctx.label("limit-program:refused-by-parser-or-compiler");
                    continue;
                }
            };
            if fmlrun::serialize(&p).is_err() {
                ctx.label("limit-program:refused-by-serializer");
                continue;
            }
            ctx.eval();
            ctx.label("limit-program:written");
            let case = || json!({"limit_program": name, "source": src});
            if let Err(mut v) = writer_conformance(&p, &case, ctx, "limit") {
                v.detail = format!("[limit program {}] {}", name, v.detail);
                out.push(v);
            }
        }
        for (i, f) in crate::props::c03::repo_bc_files().iter().enumerate() {
            if !ctx.shard_mine(i) {
                continue;
            }
            let bytes = match std::fs::read(f) {
                Ok(b) => b,
                Err(_) => continue,
            };
            ctx.eval();
            ctx.label("repo-bc-file");
            // a checked-in file must be readable by the independent reader exactly when FML loads it
            let mine = reader::read(&bytes);
            let theirs = fmlrun::load(&bytes);
            match (mine, theirs) {
                (Ok(m), Ok(p)) => {
                    let case = || json!({"file": f.to_string_lossy(), "bytes": hex(&bytes)});
                    match project(&p) {
                        Ok(pr) if pr.model == m => {}
                        Ok(pr) => out.push(Violation::new("reader-layout", format!("[{}] {}", f.display(), diff_models(&m, &pr.model)), case())),
                        Err(e) => out.push(Violation::new("projection-failed", e, case())),
                    }
                }
                (Err(_), Err(_)) => ctx.exclude("repo-bc-file-rejected-by-both"),
                (Ok(_), Err(e)) => out.push(Violation::new(
                    "reader-layout",
                    format!("[{}] conforming file rejected by FML: {}", f.display(), e),
                    json!({"file": f.to_string_lossy(), "bytes": hex(&bytes)}),
                )),
                (Err(_), Ok(_)) => ctx.exclude("repo-bc-file-not-conforming(trailing-bytes-or-old-format)"),
            }
        }
        out
    }
    fn replay(&self, case: &Value, ctx: &mut Ctx) -> Judged {
        if let Some(t) = case["tape"].as_str() {
            if let Some(bytes) = crate::tape::unhex(t) {
                return self.judge_tape(&bytes, ctx);
            }
        }
        if let Some(src) = case["source"].as_str() {
            // a fixed program (limit program): the compiler's output against the layout
            let c = case.clone();
            let p = match fmlrun::parse(src).and_then(|ast| fmlrun::compile(&ast)) {
                Ok(p) => p,
                Err(_) => return Ok(()),
            };
            if fmlrun::serialize(&p).is_err() {
                return Ok(());
            }
            ctx.eval();
            return writer_conformance(&p, &move || c.clone(), ctx, "limit");
        }
        if let Some(h) = case["bytes"].as_str() {
            // a checked-in file: loaded by FML as what the independent reader reads
            let bytes = crate::tape::unhex(h).unwrap_or_default();
            ctx.eval();
            return match (reader::read(&bytes), fmlrun::load(&bytes)) {
                (Ok(m), Ok(p)) => match project(&p) {
                    Ok(pr) if pr.model == m => Ok(()),
                    Ok(pr) => Err(Violation::new("reader-layout", diff_models(&m, &pr.model), case.clone())),
                    Err(e) => Err(Violation::new("projection-failed", e, case.clone())),
                },
                (Ok(_), Err(e)) => Err(Violation::new("reader-layout", format!("conforming file rejected by FML: {}", e), case.clone())),
                _ => Ok(()),
            };
        }
        Err(Violation::new("harness-error", "unusable replay case", case.clone()))
    }
    fn judge_tape(&self, tape: &[u8], ctx: &mut Ctx) -> Judged {
        let mut t = Tape::new(tape);
        ctx.eval();
        if t.byte() % 2 == 0 {
            let g = generate(&mut t, &Profile::full());
            let src = render::text(&g.prog, render::Style::Minimal);
            let case = || json!({"tape": hex(tape), "domain": "A", "source": render::pretty(&g.prog)});
            let ast = fmlrun::parse(&src).map_err(|e| Violation::new("parse-rejected", e, case()))?;
            let p = fmlrun::compile(&ast).map_err(|e| Violation::new("compile-rejected", e, case()))?;
            ctx.label("domain:A");
            writer_conformance(&p, &case, ctx, "A")?;
            // and the compiler's program, re-encoded independently, must load as itself
            let proj = project(&p).map_err(|e| Violation::new("projection-failed", e, case()))?;
            reader_conformance(&proj.model, &case, ctx)?;
            // interoperation: the same program as another writer might lay it out - the entry
            // method first (constant #0) and ending in `return` - must load as the same program,
            // which shows when it is run by the real loop
            if tape_sample(tape, 8) {
                let base = fmlrun::run_stepped(&p, 300_000);
                if !matches!(base.exec, fmlrun::Exec::Runaway) {
                    let mut m2 = proj.model.clone();
                    let e = m2.entry as usize;
                    if let Const::Method { code, .. } = &mut m2.consts[e] {
                        code.push(crate::bc::model::Ins::Return);
                    }
                    let m2 = m2.with_const_moved(e, 0);
                    let img = writer::write(&m2);
                    ctx.label("entry-first-layout-executed");
                    match fmlrun::load(&img) {
                        Ok(p2) => {
                            let r = fmlrun::run_loop(&p2);
                            if r.out != base.out || r.exec.class() != base.exec.class() {
                                return ctx.settle(
                                    Violation::new(
                                        "reader-layout",
                                        format!("the same program written with its entry method first (and ending in return) behaves differently once loaded:\ncompiler's layout {:?} {:?}\nentry-first layout {:?} {:?}", base.exec, base.out.chars().take(200).collect::<String>(), r.exec, r.out.chars().take(200).collect::<String>()),
                                        case(),
                                    )
                                    .with("origin", "entry-first"),
                                );
                            }
                        }
                        Err(e) => return ctx.settle(Violation::new("reader-layout", format!("FML cannot load the entry-first layout of a compiler output: {}", e), case()).with("origin", "entry-first")),
                    }
                }
            }
            // the file as the command line emits it (`fml parse -o`, `fml compile -o`), written again
            // and again to the SAME path by programs of different sizes: it must be exactly the
            // image, with nothing left over from an earlier, longer file
            if tape_sample(tape, ctx.tier.pick(120, 60)) {
                let dir = std::path::PathBuf::from(std::env::var("FMLV_WORK").unwrap_or_else(|_| "/verif/.work".into())).join(format!("C04-scratch-{}", std::process::id()));
                let _ = std::fs::create_dir_all(&dir);
                let fsrc = dir.join("p.fml");
                let fast = dir.join("p.json");
                let fbc = dir.join("p.bc");
                let bin = crate::cli::fml_release();
                if std::fs::write(&fsrc, &src).is_ok() {
                    let p1 = crate::cli::run_fml(&bin, &["parse", fsrc.to_str().unwrap(), "-o", fast.to_str().unwrap()]);
                    let p2 = crate::cli::run_fml(&bin, &["compile", fast.to_str().unwrap(), "-o", fbc.to_str().unwrap()]);
                    if let (Ok(a), Ok(b)) = (p1, p2) {
                        if a.status.success() && b.status.success() {
                            ctx.label("cli-compile-to-reused-path");
                            let file = std::fs::read(&fbc).unwrap_or_default();
                            let image = fmlrun::serialize(&p).unwrap_or_default();
                            if let Err(e) = reader::read(&file) {
                                return ctx.settle(Violation::new("writer-layout", format!("the file written by `fml compile -o` does not follow the layout: {} ({} bytes on disk, image {} bytes)", e, file.len(), image.len()), case()).with("origin", "cli"));
                            }
                            if file != image {
                                return ctx.settle(Violation::new("writer-layout", format!("the file written by `fml compile -o` ({} bytes) differs from the image of the same program ({} bytes)", file.len(), image.len()), case()).with("origin", "cli"));
                            }
                            // the same image on stdout; and the command line that gives compile no
                            // AST format at all (the pinned tree refuses it): whatever is emitted
                            // by a run that exits 0 must be the image and nothing else
                            if let Ok(o) = crate::cli::run_fml(&bin, &["compile", fast.to_str().unwrap()]) {
                                if o.status.success() && o.stdout != image {
                                    return ctx.settle(Violation::new("writer-layout", format!("`fml compile` writes {} bytes to stdout, the image of the same program has {} bytes (first difference at {:?})", o.stdout.len(), image.len(), first_diff(&o.stdout, &image)), case()).with("origin", "cli-stdout"));
                                }
                            }
                            if let Ok(text) = std::fs::read(&fast) {
                                if let Ok(o) = crate::cli::Invocation::new(&bin, &["compile"]).stdin(&text).run() {
                                    ctx.label("cli-compile-without-any-format");
                                    if o.status.success() && o.stdout != image {
                                        return ctx.settle(Violation::new("writer-layout", format!("`fml compile` reading the AST from stdin without --input-format ends with {:?} and {} bytes on stdout that are not the image ({} bytes)", o.status, o.stdout.len(), image.len()), case()).with("origin", "cli-stdout"));
                                    }
                                }
                            }
                        }
                    }
                }
            }
            ctx.sample(src.len(), || json!({"domain": "A", "source": render::pretty(&g.prog)}));
            Ok(())
        } else {
            let m = gm::generate(&mut t, &ModelOpts::default());
            let case = || json!({"tape": hex(tape), "domain": "B", "model_summary": summary(&m)});
            ctx.label("domain:B");
            if m.consts.len() >= 256 {
                ctx.label("pool>=256");
            }
            reader_conformance(&m, &case, ctx)?;
            // the same file through the real command line (buffered file and stdin readers):
            // its listing must denote the model - sampled, and always for files > 8 KiB
            let image = writer::write(&m);
            let has_break = m.consts.iter().any(|c| matches!(c, Const::Str(s) if s.contains('\n') || s.contains('\r')));
            if !has_break && (tape_sample(tape, ctx.tier.pick(150, 60)) || (image.len() > 8192 && tape_sample(tape, 3))) {
                ctx.label(if image.len() > 8192 { "cli-load:file>8KiB" } else { "cli-load" });
                crate::props::c17::judge_bytes(&image, ctx, &case, true)?;
            }
            for rev in &[false, true] {
                match gm::build_program(&m, *rev) {
                    Ok(p) => writer_conformance(&p, &case, ctx, if *rev { "B/built-reversed" } else { "B/built" })?,
                    Err(e) => return ctx.settle(Violation::new("build-failed", e, case())),
                }
            }
            let bytes = writer::write(&m);
            ctx.sample(bytes.len(), || json!({"domain": "B", "summary": summary(&m), "bytes_hex_prefix": hex(&bytes[..bytes.len().min(96)])}));
            Ok(())
        }
    }
}
