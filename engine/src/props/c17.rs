//! C17 — disassembly is a faithful, complete rendering of the bytecode file.

use crate::bc::model::{Const, Model};
use crate::bc::{listing, reader, writer};
use crate::cli;
use crate::fmlrun;
use crate::gen::model::{self as gm, ModelOpts};
use crate::gen::prog::{generate, Profile};
use crate::harness::*;
use crate::props::c03::{diff_models, summary};
use crate::render;
use crate::tape::{hex, Tape};
use serde_json::{json, Value};
use std::cell::RefCell;

pub struct C17;

thread_local! {
    static SCRATCH: RefCell<Option<cli::Scratch>> = RefCell::new(None);
    static COUNTER: RefCell<u64> = RefCell::new(0);
}

fn has_line_break(m: &Model) -> bool {
    m.consts.iter().any(|c| matches!(c, Const::Str(s) if s.contains('\n') || s.contains('\r')))
}

fn delimiter_string(m: &Model) -> bool {
    m.consts.iter().any(|c| match c {
        Const::Str(s) => {
            s.contains('"') || s.contains('#') || s.contains(',') || s.starts_with(' ') || s.ends_with(' ') || s.starts_with("slot ")
                || s.starts_with("method ") || s.starts_with("class ") || s.contains(": ")
        }
        _ => false,
    })
}

/// `bytes` is a bytecode file; its disassembly must read back as what the
/// independent reader decodes from the file.
pub fn judge_bytes(bytes: &[u8], ctx: &mut Ctx, case: &dyn Fn() -> Value, cli_sample: bool) -> Judged {
    ctx.eval();
    let want = match reader::read(bytes) {
        Ok(m) => m,
        Err(_) => {
            ctx.exclude("not-a-conforming-file");
            return Ok(());
        }
    };
    if has_line_break(&want) {
        ctx.exclude("string-with-raw-line-break(precondition)");
        return Ok(());
    }
    let p = match fmlrun::load(bytes) {
        Ok(p) => p,
        Err(e) => return ctx.settle(Violation::new("load-failed", e, case())),
    };
    let text = match fmlrun::disassemble(&p) {
        Ok(t) => t,
        Err(e) => return ctx.settle(Violation::new("disassemble-failed", e, case())),
    };
    let got = match listing::parse(&text) {
        Ok(m) => m,
        Err(e) => {
            return ctx.settle(Violation::new(
                "listing-unreadable",
                format!("the listing cannot be read back: {}\n--- listing (first 1200 chars)\n{}", e, text.chars().take(1200).collect::<String>()),
                case(),
            ))
        }
    };
    // strings may be listed verbatim (as the pinned tree does) or with every special character
    // escaped; either way they must read back to the file's strings
    let escaped_ok = got != want && listing::parse_escaped(&text).map(|g| g == want).unwrap_or(false);
    if escaped_ok {
        ctx.label("listing-escapes-its-strings");
    }
    if got != want && !escaped_ok {
        return ctx.settle(Violation::new(
            "listing-unfaithful",
            format!("the listing denotes a different program than the file:\n{}", diff_models(&want, &got)),
            case(),
        ));
    }
    let methods = want.consts.iter().filter(|c| matches!(c, Const::Method { .. })).count();
    if methods >= 2 && delimiter_string(&want) {
        ctx.nontrivial(bytes);
    }
    if want.total_instructions() > 9999 {
        ctx.label("addresses>9999");
    }
    if cli_sample {
        let bin = cli::fml_release();
        let res = SCRATCH.with(|s| {
            let mut s = s.borrow_mut();
            if s.is_none() {
                *s = Some(cli::Scratch::new("C17", "w"));
            }
            let sc = s.as_mut().unwrap();
            let f = sc.file("case.bc");
            std::fs::write(&f, bytes).unwrap();
            let a = cli::run_fml(&bin, &["disassemble", f.to_str().unwrap()]);
            let b = cli::Invocation::new(&bin, &["disassemble"]).stdin(bytes).run();
            (a, b)
        });
        for (how, r) in vec![("file", res.0), ("stdin", res.1)] {
            match r {
                Err(e) => return Err(Violation::new("harness-error", format!("cannot run fml: {}", e), json!({}))),
                Ok(o) => {
                    ctx.label(&format!("cli:disassemble-{}", how));
                    if !o.status.success() {
                        return ctx.settle(Violation::new("cli-disassemble-failed", format!("fml disassemble ({}) -> {:?}: {}", how, o.status, o.err_str()), case()));
                    }
                    if o.out_str() != format!("{}\n", text) {
                        return ctx.settle(Violation::new(
                            "cli-listing-differs",
                            format!("`fml disassemble` ({}) prints something else than the in-process rendering", how),
                            case(),
                        ));
                    }
                }
            }
        }
    }
    Ok(())
}

/// A file whose first method has `n` instructions and is followed by a short one.
fn long_method_file(n: usize) -> Model {
    use crate::bc::model::Ins;
    let mut code = Vec::with_capacity(n);
    while code.len() + 2 < n {
        code.push(Ins::Lit(1));
        code.push(Ins::Drop);
    }
    while code.len() < n {
        code.push(Ins::Lit(1));
    }
    Model {
        consts: vec![
            Const::Str("long".into()),
            Const::Int(7),
            Const::Method { name: 0, nargs: 0, nlocals: 0, code },
            Const::Str("short, \"quoted\" #3".into()),
            Const::Method { name: 3, nargs: 0, nlocals: 0, code: vec![Ins::Lit(1), Ins::Return] },
        ],
        globals: vec![2, 4],
        entry: 2,
    }
}

impl Property for C17 {
    fn id(&self) -> &'static str {
        "C17"
    }
    fn fuzzable(&self) -> bool {
        true
    }
    fn rule(&self) -> String {
        "cases: even tapes -> compiler outputs for generated programs; odd tapes -> independently encoded models (domain B of C03 without raw CR/LF in strings, by construction; strings with quotes, #, :, commas, leading/trailing blanks, `slot 3`/`method #1 args:0` look-alikes, non-ASCII; empty classes; methods > 10000 instructions). The Display rendering (and for a sample the real `fml disassemble FILE` / stdin) is parsed by an independent listing parser and the rebuilt program (constants, per-method instruction sequences from Code[S..=E], globals, entry) must equal what the independent reader decodes from the file; indices consecutive, every code line owned by exactly one method. non-trivial: >= 2 methods and >= 1 string containing a listing delimiter; distinct by image Fixed cases: the checked-in .bc files and independently encoded files whose first method has 65534, 65535, 65536, 65537, 70001 and 131073 instructions, followed by a short method.".into()
    }
    fn assumptions(&self) -> Vec<String> {
        vec!["a string constant is everything between the first and the last quote of its line (strings with raw line breaks are outside the property's precondition and are counted as excluded)".into()]
    }
    fn random_cases(&self, tier: Tier) -> u64 {
        tier.pick(200_000, 4_000_000)
    }
    fn max_tape(&self) -> usize {
        900
    }
    fn fixed_parts(&self, ctx: &mut Ctx) -> Vec<Violation> {
        let mut out = vec![];
        for (i, f) in crate::props::c03::repo_bc_files().iter().enumerate() {
            if !ctx.shard_mine(i) {
                continue;
            }
            if let Ok(bytes) = std::fs::read(f) {
                ctx.label("repo-bc-file");
                let case = || json!({"file": f.to_string_lossy(), "bytes": hex(&bytes)});
                if let Err(mut v) = judge_bytes(&bytes, ctx, &case, true) {
                    v.detail = format!("[{}] {}", f.display(), v.detail);
                    out.push(v);
                }
            }
        }
        // methods around and beyond 65535 instructions (the length field of a method body is a
        // u32, every index in the file a u16): a long method in front of a short one, so that a
        // shortened or mis-sized body also shifts everything behind it
        for (i, n) in [65534usize, 65535, 65536, 65537, 70001, 131073].iter().enumerate() {
            if !ctx.shard_mine(i) {
                continue;
            }
            let m = long_method_file(*n);
            let bytes = writer::write(&m);
            ctx.label("method-around-65535-instructions");
            let case = || json!({"long_method_instructions": n, "bytes_len": bytes.len()});
            if let Err(mut v) = judge_bytes(&bytes, ctx, &case, true) {
                v.detail = format!("[method of {} instructions] {}", n, v.detail);
                out.push(v);
            }
        }
        out
    }
    fn judge_tape(&self, tape: &[u8], ctx: &mut Ctx) -> Judged {
        let mut t = Tape::new(tape);
        let sample = tape_sample(tape, ctx.tier.pick(130, 400));
        if t.byte() % 2 == 0 {
            let g = generate(&mut t, &Profile::full());
            let src = render::text(&g.prog, render::Style::Minimal);
            let case = || json!({"tape": hex(tape), "domain": "A", "source": render::pretty(&g.prog)});
            let ast = fmlrun::parse(&src).map_err(|e| Violation::new("parse-rejected", e, case()))?;
            let p = fmlrun::compile(&ast).map_err(|e| Violation::new("compile-rejected", e, case()))?;
            let bytes = fmlrun::serialize(&p).map_err(|e| Violation::new("serialize-failed", e, case()))?;
            ctx.label("domain:A");
            judge_bytes(&bytes, ctx, &case, sample)?;
            ctx.sample(src.len(), || json!({"domain": "A", "source": render::pretty(&g.prog)}));
            Ok(())
        } else {
            let o = ModelOpts { line_breaks: false, ..ModelOpts::default() };
            let m = gm::generate(&mut t, &o);
            let bytes = writer::write(&m);
            let case = || json!({"tape": hex(tape), "domain": "B", "bytes": hex(&bytes[..bytes.len().min(4000)]), "model_summary": summary(&m)});
            ctx.label("domain:B");
            // files longer than a read buffer of the command line go through it every other time
            let sample = sample || (bytes.len() > 8192 && tape_sample(tape, 2));
            if bytes.len() > 8192 {
                ctx.label("file>8KiB");
            }
            judge_bytes(&bytes, ctx, &case, sample)?;
            ctx.sample(bytes.len(), || json!({"domain": "B", "summary": summary(&m)}));
            Ok(())
        }
    }
    fn replay(&self, case: &Value, ctx: &mut Ctx) -> Judged {
        if let Some(t) = case["tape"].as_str() {
            if let Some(bytes) = crate::tape::unhex(t) {
                return self.judge_tape(&bytes, ctx);
            }
        }
        if let Some(n) = case["long_method_instructions"].as_u64() {
            let bytes = writer::write(&long_method_file(n as usize));
            let c = case.clone();
            return judge_bytes(&bytes, ctx, &move || c.clone(), true);
        }
        if let Some(b) = case["bytes"].as_str() {
            let bytes = crate::tape::unhex(b).unwrap_or_default();
            let c = case.clone();
            return judge_bytes(&bytes, ctx, &move || c.clone(), true);
        }
        Err(Violation::new("harness-error", "unusable replay case", case.clone()))
    }
}
