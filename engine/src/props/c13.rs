//! C13 — left-to-right evaluation; subexpressions run exactly as often as specified.

use crate::fmlrun;
use crate::gen::choose::{Choose, Script};
use crate::harness::*;
use crate::ir::*;
use crate::refsem::{self, Outcome};
use crate::render;
use crate::tape::{hex, Tape};
use serde_json::{json, Value};

pub struct C13;

#[derive(Clone, Copy, PartialEq, Debug)]
enum Ty {
    Int,
    Bool,
    Null,
    Arr,
    Obj,
}

struct Shapes<'c> {
    c: &'c mut dyn Choose,
    k: i32,
    /// multi: every operand position may be nested (random mode); otherwise one position
    multi: bool,
    uniq: usize,
    /// depth of the outermost shape
    top_d: usize,
}

fn prelude() -> Vec<E> {
    vec![
        E::Fun("tr".into(), vec!["k".into(), "v".into()], bx(E::Block(vec![print("<~>", vec![var("k")]), var("v")]))),
        E::Fun("f0".into(), vec![], bx(E::Int(0))),
        E::Fun("f1".into(), vec!["a".into()], bx(var("a"))),
        E::Fun("f2".into(), vec!["a".into(), "b".into()], bx(var("b"))),
        E::Fun("f3".into(), vec!["a".into(), "b".into(), "c".into()], bx(var("a"))),
        E::Fun(
            "mk".into(),
            vec![],
            bx(E::Object(
                None,
                vec![
                    Member::Field("f".into(), E::Int(5)),
                    Member::Method("m0".into(), vec![], E::Int(1)),
                    Member::Method("m1".into(), vec!["a".into()], var("a")),
                    Member::Method("m2".into(), vec!["a".into(), "b".into()], var("a")),
                    Member::Method("+".into(), vec!["a".into()], var("a")),
                ],
            )),
        ),
        let_("x", E::Int(0)),
        let_("g", E::Int(0)),
        // an object whose get / method / operator identify themselves: syntactically plain
        // forms such as ov[2] or ov + 1 have effects through user-defined members
        let_(
            "ov",
            E::Object(
                None,
                vec![
                    Member::Method("get".into(), vec!["i".into()], call("tr", vec![bin("+", E::Int(900), var("i")), var("i")])),
                    Member::Method("m1".into(), vec!["a".into()], call("tr", vec![bin("+", E::Int(800), var("a")), var("a")])),
                    Member::Method("+".into(), vec!["a".into()], call("tr", vec![bin("+", E::Int(700), var("a")), var("a")])),
                ],
            ),
        ),
        let_("ea", E::Array(bx(E::Int(0)), bx(E::Int(0)))),
        E::Fun("ft".into(), vec![], bx(call("tr", vec![E::Int(600), E::Int(6)]))),
        // changes the global x from inside a call made by an initializer
        E::Fun("bumpx".into(), vec!["k".into(), "d".into()], bx(E::Block(vec![print("<~>", vec![var("k")]), assign("x", bin("+", var("x"), var("d")))]))),
    ]
}

impl<'c> Shapes<'c> {
    fn next_k(&mut self) -> i32 {
        self.k += 1;
        self.k
    }

    fn base(&mut self, ty: Ty) -> E {
        match ty {
            // index positions subtract 1, so 1..3 stay in range of the 3-element arrays
            Ty::Int => E::Int(if self.multi { self.c.pick(3) as i32 + 1 } else { self.k % 3 + 1 }),
            Ty::Bool => E::Bool(self.c.flag()),
            Ty::Null => E::Null,
            Ty::Arr => E::Array(bx(E::Int(3)), bx(E::Int(7))),
            Ty::Obj => call("mk", vec![]),
        }
    }

    /// a traced operand: identifies itself when (and as often as) it is evaluated
    fn traced(&mut self, ty: Ty, d: usize, nest: bool) -> E {
        let k = self.next_k();
        let v = if nest && d > 0 { self.shape(ty, d - 1) } else { self.base(ty) };
        let as_call = if self.multi { self.c.flag() } else { k % 2 == 0 };
        if as_call {
            call("tr", vec![E::Int(k), v])
        } else {
            E::Block(vec![print(&format!("<{}>", k), vec![]), v])
        }
    }

    fn operands(&mut self, tys: &[Ty], d: usize) -> Vec<E> {
        // which operand positions get a nested shape
        let nested: Vec<bool> = if d == 0 {
            vec![false; tys.len()]
        } else if self.multi {
            tys.iter().map(|_| self.c.pick(4) == 0).collect()
        } else {
            let p = self.c.pick(tys.len() + 1);
            (0..tys.len()).map(|i| i + 1 == p).collect()
        };
        // at most one operand is a bare literal (no marker, no effect): a compiler that treats
        // a literal operand specially must still evaluate the other operands as often as before
        // (enumeration: only in the outermost shape and only when no operand is nested, or the
        // space multiplies beyond what a quick tier can walk; random mode: anywhere)
        let allowed = self.multi || (d == self.top_d && nested.iter().all(|n| !*n));
        let bare = if tys.is_empty() || !allowed { 0 } else { self.c.pick(tys.len() + 1) };
        tys.iter()
            .zip(nested.iter())
            .enumerate()
            .map(|(i, (t, n))| if i + 1 == bare && matches!(t, Ty::Int | Ty::Bool | Ty::Null) && !*n { self.base(*t) } else { self.traced(*t, d, *n) })
            .collect()
    }

    fn shape(&mut self, ty: Ty, d: usize) -> E {
        // shapes that produce a value of type `ty`
        match ty {
            Ty::Int => match self.c.pick(14) {
                12 => {
                    // field read: the receiver is evaluated exactly once, also when the field's
                    // value is thrown away (as an operand of a block this shape is discarded)
                    let mut o = self.operands(&[Ty::Obj], d);
                    field(o.remove(0), "f")
                }
                0 => {
                    let op = ["+", "-", "*"][self.c.pick(3)];
                    let mut o = self.operands(&[Ty::Int, Ty::Int], d);
                    bin(op, o.remove(0), o.remove(0))
                }
                1 => call("f0", vec![]),
                2 => call("f1", self.operands(&[Ty::Int], d)),
                3 => call("f2", self.operands(&[Ty::Bool, Ty::Int], d)),
                4 => call("f3", self.operands(&[Ty::Int, Ty::Null, Ty::Arr], d)),
                5 => {
                    let mut o = self.operands(&[Ty::Obj, Ty::Int, Ty::Bool], d);
                    mcall(o.remove(0), "m2", o)
                }
                6 => {
                    let mut o = self.operands(&[Ty::Arr, Ty::Int], d);
                    index(o.remove(0), bin("-", o.remove(0), E::Int(1)))
                }
                7 => {
                    // index write evaluates array, index, value; built-in set's value is not observed
                    let mut o = self.operands(&[Ty::Arr, Ty::Int, Ty::Int], d);
                    let a = o.remove(0);
                    let i = o.remove(0);
                    let v = o.remove(0);
                    E::Block(vec![E::IndexSet(bx(a), bx(bin("-", i, E::Int(1))), bx(v)), E::Int(0)])
                }
                8 => {
                    let mut o = self.operands(&[Ty::Obj, Ty::Int], d);
                    E::FieldSet(bx(o.remove(0)), "f".into(), bx(o.remove(0)))
                }
                9 => {
                    let mut o = self.operands(&[Ty::Int], d);
                    if self.c.flag() {
                        self.uniq += 1;
                        E::Let(format!("l{}", self.uniq), bx(o.remove(0)))
                    } else {
                        E::Assign("x".into(), bx(o.remove(0)))
                    }
                }
                10 => {
                    let mut o = self.operands(&[Ty::Bool, Ty::Int, Ty::Int], d);
                    E::If(bx(o.remove(0)), bx(o.remove(0)), Some(bx(o.remove(0))))
                }
                11 => {
                    let n = self.c.pick(4);
                    let tys: Vec<Ty> = (0..n).map(|i| [Ty::Int, Ty::Null, Ty::Bool][i % 3]).collect();
                    let mut o = self.operands(&tys, d);
                    let last = self.operands(&[Ty::Int], d).remove(0);
                    o.push(last);
                    E::Block(o)
                }
                _ => {
                    let mut o = self.operands(&[Ty::Obj, Ty::Int], d);
                    bin("+", o.remove(0), o.remove(0))
                }
            },
            Ty::Bool => match self.c.pick(4) {
                0 => {
                    let op = ["<", "<=", "==", "!=", ">", ">="][self.c.pick(6)];
                    let mut o = self.operands(&[Ty::Int, Ty::Int], d);
                    bin(op, o.remove(0), o.remove(0))
                }
                1 => {
                    let op = ["&", "|"][self.c.pick(2)];
                    let mut o = self.operands(&[Ty::Bool, Ty::Bool], d);
                    bin(op, o.remove(0), o.remove(0))
                }
                2 => {
                    let mut o = self.operands(&[Ty::Obj, Ty::Bool], d);
                    mcall(o.remove(0), "m1", o)
                }
                _ => {
                    let mut o = self.operands(&[Ty::Null, Ty::Bool], d);
                    bin("==", o.remove(0), o.remove(0))
                }
            },
            Ty::Null => match self.c.pick(4) {
                0 => {
                    let n = self.c.pick(4);
                    let tys: Vec<Ty> = (0..n).map(|i| [Ty::Int, Ty::Bool, Ty::Arr][i % 3]).collect();
                    let o = self.operands(&tys, d);
                    let fmt = format!("p{}\\n", " ~".repeat(n));
                    E::Print(fmt, o)
                }
                1 => {
                    // a counted loop: the condition runs n+1 times, the body n times
                    self.uniq += 1;
                    let i = format!("i{}", self.uniq);
                    let n = self.c.pick(4) as i32;
                    let kc = self.next_k();
                    let cond = call("tr", vec![E::Int(kc), bin("<", var(&i), E::Int(n))]);
                    let body_op = self.operands(&[Ty::Int], d).remove(0);
                    E::Block(vec![
                        E::Let(i.clone(), bx(E::Int(0))),
                        E::While(bx(cond), bx(E::Block(vec![body_op, E::Assign(i.clone(), bx(bin("+", var(&i), E::Int(1))))]))),
                    ])
                }
                2 => {
                    let mut o = self.operands(&[Ty::Bool, Ty::Null], d);
                    E::If(bx(o.remove(0)), bx(o.remove(0)), None)
                }
                _ => {
                    let mut o = self.operands(&[Ty::Bool, Ty::Null, Ty::Null], d);
                    E::If(bx(o.remove(0)), bx(o.remove(0)), Some(bx(o.remove(0))))
                }
            },
            Ty::Arr => match self.c.pick(if d > 0 { 6 } else { 5 }) {
                // NOTE: 5 (or 4 at depth 0) = the size is a plain VARIABLE (global, local of a function,
                // field) and the initializer assigns it: the size is still evaluated once and first
                n5 if n5 == (if d > 0 { 5 } else { 4 }) => {
                    let k1 = self.next_k();
                    let start = 1 + self.c.pick(3) as i32;
                    let delta = [1, -1, 2][self.c.pick(3)];
                    match self.c.pick(3) {
                        0 => E::Block(vec![
                            assign("x", E::Int(start)),
                            E::Array(bx(var("x")), bx(call("tr", vec![E::Int(k1), assign("x", bin("+", var("x"), E::Int(delta)))]))),
                        ]),
                        1 => E::Block(vec![
                            let_("sz", E::Int(start)),
                            E::Array(bx(var("sz")), bx(E::Block(vec![print(&format!("<{}>", k1), vec![]), assign("sz", bin("+", var("sz"), E::Int(delta)))]))),
                        ]),
                        _ => E::Block(vec![
                            assign("x", E::Int(start)),
                            E::Array(bx(var("x")), bx(call("bumpx", vec![E::Int(k1), E::Int(delta)]))),
                        ]),
                    }
                }
                // NOTE: alternative numbering: 0..2 traced sizes, 3 plain effectful forms, 4 nested shape
                3 => {
                    let k1 = self.next_k();
                    let n = self.c.pick(4) as i32;
                    let init = match self.c.pick(7) {
                        0 => index(var("ov"), E::Int(2)),
                        1 => index(var("ov"), var("x")),
                        2 => mcall(var("ov"), "m1", vec![E::Int(1)]),
                        3 => bin("+", var("ov"), E::Int(1)),
                        4 => call("ft", vec![]),
                        5 => mcall(var("ov"), "get", vec![var("x")]),
                        // reading an element of an EMPTY array fails - unless the size is 0 and
                        // the initializer is (correctly) never evaluated
                        _ => index(var("ea"), E::Int(0)),
                    };
                    E::Array(bx(call("tr", vec![E::Int(k1), E::Int(n)])), bx(init))
                }
                4 => {
                    // the initializer IS a construct of every kind (not wrapped in a tracer):
                    // its own operands identify themselves once per element
                    let k1 = self.next_k();
                    let n = self.c.pick(4) as i32;
                    let ety = [Ty::Int, Ty::Bool, Ty::Null, Ty::Obj, Ty::Arr][self.c.pick(5)];
                    let init = self.shape(ety, d - 1);
                    E::Array(bx(call("tr", vec![E::Int(k1), E::Int(n)])), bx(init))
                }
                0 => {
                    // simple initializer: size once, initializer once
                    let k1 = self.next_k();
                    let n = self.c.pick(4) as i32;
                    E::Array(bx(call("tr", vec![E::Int(k1), E::Int(n)])), bx(var("g")))
                }
                1 => {
                    // compound initializer: size once and first, initializer once per element
                    let k1 = self.next_k();
                    let n = self.c.pick(4) as i32;
                    let init = self.operands(&[Ty::Int], d).remove(0);
                    E::Array(bx(call("tr", vec![E::Int(k1), E::Int(n)])), bx(init))
                }
                _ => {
                    // element values reveal the order: each evaluation bumps the global g
                    let k1 = self.next_k();
                    let n = self.c.pick(4) as i32;
                    let k2 = self.next_k();
                    let init = call("tr", vec![E::Int(k2), E::Assign("g".into(), bx(bin("+", var("g"), E::Int(1))))]);
                    E::Array(bx(call("tr", vec![E::Int(k1), E::Int(n)])), bx(init))
                }
            },
            Ty::Obj => {
                let n = self.c.pick(4);
                let mut tys = vec![];
                let with_parent = self.c.flag();
                if with_parent {
                    tys.push([Ty::Null, Ty::Int, Ty::Obj][self.c.pick(3)]);
                }
                for i in 0..n {
                    tys.push([Ty::Int, Ty::Bool, Ty::Arr][i % 3]);
                }
                let mut o = self.operands(&tys, d);
                let parent = if with_parent { Some(bx(o.remove(0))) } else { None };
                let mut ms = vec![];
                for (i, e) in o.into_iter().enumerate() {
                    ms.push(Member::Field(["q", "a", "m"][i % 3].to_string() + &i.to_string(), e));
                    if i == 0 {
                        ms.push(Member::Method("z".into(), vec![], E::Null));
                    }
                }
                E::Object(parent, ms)
            }
        }
    }
}

/// records the choices made through it, so that the same shape can be built a second time
struct Recorder<'c> {
    inner: &'c mut dyn Choose,
    log: Vec<usize>,
}

impl<'c> Choose for Recorder<'c> {
    fn pick(&mut self, n: usize) -> usize {
        let v = self.inner.pick(n);
        self.log.push(v);
        v
    }
}

struct Replayer {
    log: Vec<usize>,
    pos: usize,
}

impl Choose for Replayer {
    fn pick(&mut self, n: usize) -> usize {
        let v = self.log.get(self.pos).copied().unwrap_or(0).min(n.max(1) - 1);
        self.pos += 1;
        v
    }
}

/// marker numbers of the decoy copy of a shape (a multiple of 6 keeps the copy's structure,
/// which depends on k mod 2 and k mod 3, identical to the original's)
const DECOY: i32 = 6000;

fn build(c: &mut dyn Choose, depth: usize, multi: bool) -> Prog {
    // where the shape is evaluated: the frame kind decides how temporaries, labels and slots of
    // the shape are compiled, so the same shape is tried in each
    let context = c.pick(5);
    let mut rec = Recorder { inner: c, log: vec![] };
    let (e, ty) = {
        let mut s = Shapes { c: &mut rec, k: 0, multi, uniq: 0, top_d: depth };
        let ty = [Ty::Int, Ty::Bool, Ty::Null, Ty::Arr, Ty::Obj][s.c.pick(5)];
        (s.shape(ty, depth), ty)
    };
    let _ = ty;
    let mut p = prelude();
    match context {
        0 => p.push(print("=~\\n", vec![e])),
        // in a function frame
        1 => {
            p.push(E::Fun("host".into(), vec!["hp".into()], bx(e)));
            p.push(print("=~\\n", vec![call("host", vec![E::Int(0)])]));
        }
        // in a block of the entry frame, after another block-local
        2 => p.push(E::Block(vec![let_("pad", E::Int(0)), print("=~\\n", vec![e])])),
        // in a method, between two other objects whose same-named methods hold a copy of the
        // shape with other marker numbers: control that strays into a neighbour shows in the trace
        _ => {
            let decoy = |k0: i32, log: &Vec<usize>| {
                let mut rp = Replayer { log: log.clone(), pos: 0 };
                let mut s = Shapes { c: &mut rp, k: k0, multi, uniq: 0, top_d: depth };
                let ty = [Ty::Int, Ty::Bool, Ty::Null, Ty::Arr, Ty::Obj][s.c.pick(5)];
                s.shape(ty, depth)
            };
            let before = decoy(DECOY, &rec.log);
            let after = decoy(2 * DECOY, &rec.log);
            let obj = |body: E| E::Object(None, vec![Member::Field("tag".into(), E::Int(1)), Member::Method("run".into(), vec!["hp".into()], body)]);
            if context == 3 {
                p.push(let_("twin0", obj(before)));
                p.push(let_("host", obj(e)));
                p.push(let_("twin1", obj(after)));
            } else {
                // the host is an inline receiver, its neighbours are created inside a function
                p.push(E::Fun("twins".into(), vec![], bx(E::Block(vec![let_("t0", obj(before)), let_("t1", obj(after)), E::Null]))));
                p.push(let_("host", obj(e)));
            }
            p.push(print("=~\\n", vec![mcall(var("host"), "run", vec![E::Int(0)])]));
        }
    }
    p.push(print("x=~ g=~\\n", vec![var("x"), var("g")]));
    p
}

fn judge(prog: &Prog, ctx: &mut Ctx, case: &dyn Fn() -> Value) -> Judged {
    ctx.eval();
    let r = refsem::run(prog, refsem::DEFAULT_FUEL);
    if r.outcome == Outcome::Fuel {
        ctx.exclude("reference-fuel");
        return Ok(());
    }
    let src = render::text(prog, render::Style::Minimal);
    let pipe = match fmlrun::pipeline(&src) {
        Ok(p) => p,
        Err(e) => return ctx.settle(Violation::new("source-rejected", format!("{:?}", e), case())),
    };
    let x = fmlrun::run_stepped(&pipe.loaded, 1000 + 400 * r.steps);
    let same_outcome = (r.outcome == Outcome::Ok) == x.exec.is_ok() && !matches!(x.exec, fmlrun::Exec::Runaway);
    if x.out != r.out || !same_outcome {
        return ctx.settle(Violation::new(
            "evaluation-order",
            format!("trace differs:\nexpected {:?} ({:?})\nactual   {:?} ({:?})", r.out, r.outcome, x.out, x.exec),
            case(),
        ));
    }
    let markers = r.out.matches('<').count();
    ctx.label(&format!("markers:{}", markers.min(9)));
    if markers >= 3 {
        ctx.nontrivial(src.as_bytes());
    }
    ctx.sample(src.len(), || json!({"source": render::pretty(&prog[prelude().len()..].to_vec()), "trace": r.out}));
    Ok(())
}

impl Property for C13 {
    fn id(&self) -> &'static str {
        "C13"
    }
    fn ir_shrinkable(&self) -> bool {
        true
    }
    fn fuzzable(&self) -> bool {
        true
    }
    fn rule(&self) -> String {
        "cases: (enumerated) every expression shape of depth 1 and every depth-2 shape with one nested operand position, over {binary operator, calls with 0-3 arguments, method call, operator on an object, object with parent and 0-3 fields, array(size, simple), array(size, compound) and array(size, counting initializer) with size 0-3, index read, index write, field read, field write, let, assignment, if with/without else, counted while (condition traced), print with 0-3 arguments, block}, every operand position (but at most one, which may be a bare literal) holding a self-identifying side effect (tr(k, v) or begin print(\"<k>\"); v end), including positions whose value is discarded; (random) the same shapes to depth 4 with several nested positions. oracle: the reference semantics' output = the marker sequence (order and multiplicity) and the printed result. non-trivial: >=3 traced operand evaluations; distinct by source".into()
    }
    fn random_cases(&self, tier: Tier) -> u64 {
        tier.pick(250_000, 4_000_000)
    }
    fn max_tape(&self) -> usize {
        300
    }
    fn exhaustive_note(&self, _tier: Tier) -> Option<String> {
        Some("all choice sequences of the shape grammar: every shape with base operands and every shape with exactly one operand position replaced by another shape (count reported as class `enumerated`); deeper shapes are sampled".into())
    }
    fn fixed_parts(&self, ctx: &mut Ctx) -> Vec<Violation> {
        let mut out = vec![];
        // long top levels: 40 and 120 traced statements with function definitions scattered
        // among them - statements run in the order they are written, however many there are
        for (k, n) in [40usize, 120].iter().enumerate() {
            if !ctx.shard_mine(k + 1) {
                continue;
            }
            let mut prog = prelude();
            for i in 0..*n {
                if i % 9 == 4 {
                    prog.push(E::Fun(format!("late{}", i), vec![], bx(E::Int(i as i32))));
                }
                prog.push(match i % 4 {
                    0 => print(&format!("<{}>", i), vec![]),
                    1 => E::Assign("x".into(), bx(call("tr", vec![E::Int(i as i32), E::Int(i as i32)]))),
                    2 => call("tr", vec![E::Int(i as i32), E::Null]),
                    _ => E::Block(vec![print(&format!("<{}>", i), vec![]), E::Int(0)]),
                });
            }
            prog.push(print("x=~ g=~\\n", vec![var("x"), var("g")]));
            ctx.label("long-top-level");
            let case = || json!({"long_top_level": n, "source": render::pretty(&prog), "ir": serde_json::to_value(&prog).unwrap()});
            if let Err(v) = judge(&prog, ctx, &case) {
                out.push(v);
            }
        }
        let mut script: Option<Vec<usize>> = Some(vec![]);
        let mut i = 0usize;
        while let Some(s) = script {
            let mut sc = Script::new(s.clone());
            let prog = build(&mut sc, 1, false);
            script = sc.next();
            i += 1;
            if !ctx.shard_mine(i) {
                continue;
            }
            ctx.label("enumerated");
            let case = || json!({"script": s, "source": render::pretty(&prog), "ir": serde_json::to_value(&prog).unwrap()});
            if let Err(v) = judge(&prog, ctx, &case) {
                out.push(v);
                if out.len() > 10 {
                    break;
                }
            }
        }
        out
    }
    fn judge_tape(&self, tape: &[u8], ctx: &mut Ctx) -> Judged {
        let mut t = Tape::new(tape);
        let prog = build(&mut t, 4, true);
        let case = || json!({"tape": hex(tape), "source": render::pretty(&prog), "ir": serde_json::to_value(&prog).unwrap()});
        judge(&prog, ctx, &case)
    }
    fn replay(&self, case: &Value, ctx: &mut Ctx) -> Judged {
        if case.get("ir").map(|x| !x.is_null()).unwrap_or(false) {
            let prog = crate::props::c01::prog_from_case(case).map_err(|e| Violation::new("harness-error", e, case.clone()))?;
            let c = case.clone();
            return judge(&prog, ctx, &move || c.clone());
        }
        if let Some(s) = case["script"].as_array() {
            let script: Vec<usize> = s.iter().map(|x| x.as_u64().unwrap_or(0) as usize).collect();
            let mut sc = Script::new(script);
            let prog = build(&mut sc, 1, false);
            let c = case.clone();
            return judge(&prog, ctx, &move || c.clone());
        }
        if let Some(t) = case["tape"].as_str() {
            if let Some(bytes) = crate::tape::unhex(t) {
                return self.judge_tape(&bytes, ctx);
            }
        }
        if case.get("source").is_some() {
            let prog = crate::props::c01::prog_from_case(case).map_err(|e| Violation::new("harness-error", e, case.clone()))?;
            let c = case.clone();
            return judge(&prog, ctx, &move || c.clone());
        }
        Err(Violation::new("harness-error", "unusable replay case", case.clone()))
    }
}

/// development aid: size of the enumerated space
pub fn count_space(limit: usize) -> usize {
    let depth: usize = std::env::var("DEPTH").ok().and_then(|s| s.parse().ok()).unwrap_or(1);
    let mut script: Option<Vec<usize>> = Some(vec![]);
    let mut i = 0usize;
    while let Some(s) = script {
        let mut sc = Script::new(s);
        let _ = build(&mut sc, depth, false);
        script = sc.next();
        i += 1;
        if i >= limit {
            break;
        }
    }
    i
}
