//! C01 — running a program prints what the source semantics prescribe.

use crate::cli;
use crate::fmlrun::{self, Exec, StageErr};
use crate::gen::prog::{generate, Profile};
use crate::harness::*;
use crate::ir::Prog;
use crate::refsem::{self, Outcome};
use crate::render;
use crate::tape::Tape;
use serde_json::{json, Value};
use std::cell::RefCell;

pub struct C01;

thread_local! {
    static SCRATCH: RefCell<Option<cli::Scratch>> = RefCell::new(None);
    static COUNTER: RefCell<u64> = RefCell::new(0);
}

pub fn case_json(prog: &Prog, src: &str) -> Value {
    json!({"source": src, "ir": serde_json::to_value(prog).unwrap()})
}

pub fn prog_from_case(case: &Value) -> Result<Prog, String> {
    if let Some(ir) = case.get("ir") {
        if !ir.is_null() {
            return serde_json::from_value::<Prog>(ir.clone()).map_err(|e| format!("bad ir: {}", e));
        }
    }
    if let Some(src) = case["source"].as_str() {
        let ast = fmlrun::parse(src).map_err(|e| format!("seed source does not parse: {}", e))?;
        return Ok(crate::ir::from_fml_ast(&ast));
    }
    Err("case has neither ir nor source".into())
}

/// Number of different construct classes the reference run exercised.
pub fn construct_classes(s: &refsem::Stats) -> Vec<&'static str> {
    let mut v = vec![];
    if s.loop_iters > 0 {
        v.push("loop-iteration");
    }
    if s.user_calls > 0 {
        v.push("user-call");
    }
    if s.inherited > 0 {
        v.push("inherited-dispatch");
    }
    if s.array_rw > 0 {
        v.push("array-read-write");
    }
    if s.field_writes > 0 {
        v.push("field-write");
    }
    if s.shadow_reads > 0 {
        v.push("shadowing");
    }
    if s.compound_arrays > 0 {
        v.push("compound-array");
    }
    if s.method_calls > 0 {
        v.push("method-call");
    }
    if s.builtin_via_parent > 0 {
        v.push("builtin-via-parent");
    }
    v
}

pub struct Expect<'a> {
    pub out: &'a str,
    pub ok: bool,
}

pub fn compare_exec(what: &str, exp: &Expect, got_out: &str, got: &Exec) -> Result<(), (String, String)> {
    match (exp.ok, got) {
        (true, Exec::Ok) | (false, Exec::Fail(_)) => {}
        (_, Exec::Runaway) => {
            return Err(("runaway".into(), format!("{}: still running after the fuel derived from the reference run", what)))
        }
        (true, Exec::Fail(m)) => {
            return Err((
                "unexpected-failure".into(),
                format!("{}: reference succeeds, FML fails: {}\nexpected output {:?}\nactual output   {:?}", what, m, exp.out, got_out),
            ))
        }
        (false, Exec::Ok) => {
            return Err((
                "missed-failure".into(),
                format!("{}: reference fails, FML succeeds\nexpected output {:?}\nactual output   {:?}", what, exp.out, got_out),
            ))
        }
    }
    if exp.out != got_out {
        let kind = if exp.ok { "output-mismatch" } else { "output-mismatch-before-failure" };
        return Err((kind.into(), format!("{}:\nexpected {:?}\nactual   {:?}", what, exp.out, got_out)));
    }
    Ok(())
}

/// The full C01 judgement of one IR program.  `cli_sample`: also run the real binary.
pub fn judge_program(prog: &Prog, ctx: &mut Ctx, cli_sample: bool, fault: Option<&str>) -> Judged {
    match compare_with_reference(prog, ctx, cli_sample, fault, "C01")? {
        Some(r) => {
            let classes = construct_classes(&r.stats);
            if r.stats.prints >= 1 && classes.len() >= 2 {
                let src = render::text(prog, render::Style::Minimal);
                ctx.nontrivial(src.as_bytes());
            }
            Ok(())
        }
        None => Ok(()),
    }
}

/// Run FML (compile+interpret, serialize+load+interpret, evaluate_with, optionally the
/// real binary) against the reference semantics. Ok(None): the case was excluded.
pub fn compare_with_reference(prog: &Prog, ctx: &mut Ctx, cli_sample: bool, fault: Option<&str>, scratch_tag: &str) -> Result<Option<refsem::RunResult>, Violation> {
    ctx.eval();
    let r = refsem::run(prog, ctx.ref_fuel.unwrap_or(refsem::DEFAULT_FUEL));
    if r.outcome == Outcome::Fuel {
        ctx.exclude("reference-fuel");
        return Ok(None);
    }
    let src = render::text(prog, render::Style::Minimal);
    // every eighth program (by its text) is written with blanks, line breaks and comments of
    // every shape between its tokens (C07's decorator, driven by a tape derived from the text, so
    // that a replay writes it the same way): a program with comments is a program
    let h = src.bytes().fold(0xcbf29ce484222325u64, |a, b| (a ^ b as u64).wrapping_mul(0x100000001b3));
    let src = if h % 8 == 0 {
        ctx.label("source-written-with-comments");
        let tape = crate::tools::random_tape(h, 400);
        let mut t = crate::tape::Tape::new(&tape);
        crate::props::c07::decorate(&render::tokens(prog, render::Style::Minimal), &mut t)
    } else {
        src
    };
    let case = || case_json(prog, &render::pretty(prog));
    let exp = Expect { out: &r.out, ok: r.outcome == Outcome::Ok };
    let refkind = match &r.outcome {
        Outcome::Fail(k) => k.clone(),
        _ => String::new(),
    };

    let pipe = match fmlrun::pipeline(&src) {
        Ok(p) => p,
        Err(StageErr::Parse(m)) => {
            return settle_none(ctx, Violation::new("parse-rejected", format!("generated program rejected by the parser: {}", m), case()))
        }
        Err(StageErr::Compile(m)) => {
            return settle_none(ctx, Violation::new("compile-rejected", format!("generated program rejected by the compiler: {}", m), case()))
        }
        Err(StageErr::Serialize(m)) => return settle_none(ctx, Violation::new("serialize-failed", m, case())),
        Err(StageErr::Load(m)) => return settle_none(ctx, Violation::new("load-failed", m, case())),
    };
    let fuel = 1000 + 400 * r.steps;
    let direct = fmlrun::run_stepped(&pipe.program, fuel);
    if let Err((k, d)) = compare_exec("compile+interpret", &exp, &direct.out, &direct.exec) {
        return settle_none(ctx, Violation::new(&k, d, case()).with("stage", "direct").with("ref_fail", refkind.clone()));
    }
    let loaded = fmlrun::run_stepped(&pipe.loaded, fuel);
    if let Err((k, d)) = compare_exec("compile+serialize+load+interpret", &exp, &loaded.out, &loaded.exec) {
        return settle_none(ctx, Violation::new(&k, d, case()).with("stage", "loaded").with("ref_fail", refkind.clone()));
    }
    // the real fetch-execute loop (terminates: the stepped run did)
    let looped = fmlrun::run_loop(&pipe.loaded);
    if let Err((k, d)) = compare_exec("evaluate_with loop", &exp, &looped.out, &looped.exec) {
        return settle_none(ctx, Violation::new(&k, d, case()).with("stage", "loop").with("ref_fail", refkind.clone()));
    }

    // classification
    let classes = construct_classes(&r.stats);
    for c in &classes {
        ctx.label(&format!("construct:{}", c));
    }
    ctx.label(if exp.ok { "outcome:ok" } else { "outcome:fail" });
    if !exp.ok {
        ctx.label(&format!("reffail:{}", refkind.split(' ').take(2).collect::<Vec<_>>().join("-")));
    }
    if let Some(f) = fault {
        ctx.label(if exp.ok { "fault:injected-not-reached" } else { "fault:injected-reached" });
        let _ = f;
    }
    ctx.sample(src.len(), || json!({"source": render::pretty(prog), "expected_output": r.out, "outcome": format!("{:?}", r.outcome)}));

    if cli_sample {
        let bin = cli::fml_release();
        let res = SCRATCH.with(|s| {
            let mut s = s.borrow_mut();
            if s.is_none() {
                *s = Some(cli::Scratch::new(scratch_tag, "w"));
            }
            let sc = s.as_mut().unwrap();
            let f = sc.file("case.fml");
            std::fs::write(&f, &src).unwrap();
            cli::run_fml(&bin, &["run", f.to_str().unwrap()])
        });
        match res {
            Err(e) => return Err(Violation::new("harness-error", format!("cannot run {}: {}", bin, e), json!({}))),
            Ok(o) => {
                ctx.label("cli:run");
                let got = match &o.status {
                    cli::Status::Exit(0) => Exec::Ok,
                    cli::Status::Exit(c) => Exec::Fail(format!("exit {}", c)),
                    cli::Status::Signal(s) => {
                        return settle_none(ctx, 
                            Violation::new("native-crash", format!("fml run died on signal {}", s), case()).with("stage", "cli"),
                        )
                    }
                };
                if let Err((k, d)) = compare_exec("fml run (release binary)", &exp, &o.out_str(), &got) {
                    return settle_none(ctx, Violation::new(&k, d, case()).with("stage", "cli").with("ref_fail", refkind.clone()));
                }
                if exp.ok && !o.stderr.is_empty() {
                    return settle_none(ctx, Violation::new("stderr-on-success", o.err_str(), case()).with("stage", "cli"));
                }
            }
        }
    }
    Ok(Some(r))
}


fn settle_none(ctx: &mut Ctx, v: Violation) -> Result<Option<refsem::RunResult>, Violation> {
    // second guard (DESIGN 2.2): a disagreement is reported only for a program that the static
    // fragment checker vouches for; a generator slip that leaves the fragment is counted, not reported
    if let Some(ir) = v.case.get("ir") {
        if let Ok(prog) = serde_json::from_value::<Prog>(ir.clone()) {
            if !crate::fragment::check(&prog) {
                ctx.exclude("disagreement-on-a-program-outside-the-fragment(static check)");
                return Ok(None);
            }
        }
    }
    ctx.settle(v).map(|_| None)
}

impl Property for C01 {
    fn id(&self) -> &'static str {
        "C01"
    }
    fn ir_shrinkable(&self) -> bool {
        true
    }
    fn fuzzable(&self) -> bool {
        true
    }
    fn rule(&self) -> String {
        "cases: programs decoded from a random choice tape by the typed, scoped generator (profile full; ~15% with one injected run-time fault) plus the in-repo .fml corpus; each is judged against the reference semantics in-process (compile+interpret, serialize+load+interpret, evaluate_with loop) and a sample through the real `fml run`. non-trivial: the reference run executes >=1 print and >=2 different construct classes among {loop iteration, user call, method call, inherited dispatch, built-in via parent, array read/write, field write, shadowing, compound array}; distinct by source text".into()
    }
    fn assumptions(&self) -> Vec<String> {
        vec![
            "the reference interpreter (refsem) is my reading of the README and of the property statements; it is calibrated against the maintainers' expected outputs in tests/misc".into(),
            "programs stay inside the defined fragment: definitions dominate uses, no same-scope redefinition, Bool conditions, the value of built-in array set and of function definitions is never observed".into(),
            "exit status is compared only as zero / non-zero / signal; stderr text is never compared".into(),
        ]
    }
    fn random_cases(&self, tier: Tier) -> u64 {
        tier.pick(240_000, 6_000_000)
    }
    fn fixed_parts(&self, ctx: &mut Ctx) -> Vec<Violation> {
        let mut out = vec![];
        if ctx.index == 0 {
            if let Err(e) = crate::tools::calib_check(&format!("{}/corpus/calibration", verif_root())) {
                out.push(Violation::new("harness-error", format!("reference semantics failed its calibration: {}", e), json!({})));
                return out;
            }
        }
        out.extend(repo_corpus(ctx, "C01"));
        for (i, (name, prog)) in crate::gen::scale::programs().into_iter().enumerate() {
            if !ctx.shard_mine(i + 5) {
                continue;
            }
            ctx.label("scale-program");
            if let Err(mut v) = judge_program(&prog, ctx, true, None) {
                v.detail = format!("[scale program {}] {}", name, v.detail);
                out.push(v);
            }
        }
        // the long ones: more than 65535 instructions, loop iterations, heap objects, call depth
        for (i, (name, prog)) in crate::gen::scale::long_programs().into_iter().enumerate() {
            if !ctx.shard_mine(i + 9) {
                continue;
            }
            ctx.label("long-scale-program");
            ctx.ref_fuel = Some(20_000_000);
            let r = compare_with_reference(&prog, ctx, true, None, "C01");
            ctx.ref_fuel = None;
            match r {
                Ok(Some(_)) => ctx.label(&format!("long-scale-program-compared:{}", name)),
                Ok(None) => ctx.label(&format!("long-scale-program-NOT-compared:{}", name)),
                Err(mut v) => {
                    v.detail = format!("[long scale program {}] {}", name, v.detail);
                    out.push(v);
                }
            }
        }
        out
    }
    fn judge_tape(&self, tape: &[u8], ctx: &mut Ctx) -> Judged {
        let mut t = Tape::new(tape);
        let g = generate(&mut t, &Profile::full());
        let sample = tape_sample(tape, ctx.tier.pick(40, 10));
        judge_program(&g.prog, ctx, sample, g.fault.as_deref())
    }
    fn replay(&self, case: &Value, ctx: &mut Ctx) -> Judged {
        if case.get("ir").is_some() || case.get("source").is_some() {
            let prog = prog_from_case(case).map_err(|e| Violation::new("harness-error", e, case.clone()))?;
            return judge_program(&prog, ctx, true, None);
        }
        if let Some(t) = case["tape"].as_str() {
            if let Some(bytes) = crate::tape::unhex(t) {
                let mut tp = Tape::new(&bytes);
                let g = generate(&mut tp, &Profile::full());
                return judge_program(&g.prog, ctx, true, g.fault.as_deref());
            }
        }
        Err(Violation::new("harness-error", "unusable replay case", case.clone()))
    }
}

/// The repository's own .fml programs as fixed seed cases (they go through the
/// parser of the tree under test, unlike the stored calibration IR).
pub fn repo_corpus(ctx: &mut Ctx, _prop: &str) -> Vec<Violation> {
    let mut out = vec![];
    for (i, f) in crate::tools::repo_fml_files(crate::FML_ROOT).iter().enumerate() {
        if !ctx.shard_mine(i) {
            continue;
        }
        let src = match std::fs::read_to_string(f) {
            Ok(s) => s,
            Err(_) => continue,
        };
        let ast = match fmlrun::parse(&src) {
            Ok(a) => a,
            Err(e) => {
                out.push(Violation::new(
                    "parse-rejected",
                    format!("in-repo program {} no longer parses: {}", f.display(), e),
                    json!({"source": src}),
                ));
                continue;
            }
        };
        let prog = crate::ir::from_fml_ast(&ast);
        ctx.label("repo-corpus-program");
        if let Err(mut v) = judge_program(&prog, ctx, true, None) {
            v.detail = format!("[in-repo program {}] {}", f.display(), v.detail);
            out.push(v);
        }
    }
    out
}
