//! C08 — serialized output is complete however the sink chunks writes.
//! Level: fault enumeration over the sink's short-write behaviours.

use crate::bytecode::program::Program;
use crate::bytecode::serializable::Serializable;
use crate::cli;
use crate::fmlrun;
use crate::gen::prog::{generate, Profile};
use crate::harness::*;
use crate::ir::*;
use crate::render;
use crate::tape::{hex, Tape};
use serde_json::{json, Value};
use std::io::{self, Write};

pub struct C08;

/// How a sink treats the n-th write call.
#[derive(Clone, Debug)]
pub enum Schedule {
    /// accept at most k bytes of every call
    Limit(usize),
    /// call number `call` accepts only ceil(len/2) (half) or 1 byte; all others are complete
    Single { call: usize, one_byte: bool },
    /// per call: (limit, interrupted_first) taken cyclically; limit 0 = complete
    Random(Vec<(usize, bool)>),
    /// call number `call` accepts half of its request, the call after it fails once with
    /// WouldBlock (a transient error AFTER a partial acceptance); everything else is complete
    TransientError { call: usize },
}

pub struct Sink {
    pub got: Vec<u8>,
    pub calls: usize,
    pub shortened: usize,
    pub interrupted: usize,
    pub vectored: usize,
    sched: Schedule,
    pending_interrupt: bool,
    fail_next: bool,
}

impl Sink {
    pub fn new(sched: Schedule) -> Sink {
        Sink { got: vec![], calls: 0, shortened: 0, interrupted: 0, vectored: 0, sched, pending_interrupt: true, fail_next: false }
    }
}

impl Write for Sink {
    fn write(&mut self, buf: &[u8]) -> io::Result<usize> {
        if buf.is_empty() {
            return Ok(0);
        }
        let idx = self.calls;
        if self.fail_next {
            self.fail_next = false;
            self.interrupted += 1;
            return Err(io::Error::new(io::ErrorKind::WouldBlock, "would block"));
        }
        let accept = match &self.sched {
            Schedule::TransientError { call } => {
                if idx == *call && buf.len() > 1 {
                    self.fail_next = true;
                    (buf.len() + 1) / 2
                } else {
                    buf.len()
                }
            }
            Schedule::Limit(k) => buf.len().min(*k),
            Schedule::Single { call, one_byte } => {
                if idx == *call {
                    if *one_byte {
                        1
                    } else {
                        (buf.len() + 1) / 2
                    }
                } else {
                    buf.len()
                }
            }
            Schedule::Random(v) => {
                let (lim, intr) = v[idx % v.len()];
                if intr && self.pending_interrupt {
                    // the contract allows Interrupted before accepting anything; the same
                    // request is then repeated (or the error is reported)
                    self.pending_interrupt = false;
                    self.interrupted += 1;
                    return Err(io::Error::new(io::ErrorKind::Interrupted, "interrupted"));
                }
                self.pending_interrupt = true;
                if lim == 0 {
                    buf.len()
                } else {
                    buf.len().min(lim)
                }
            }
        };
        let accept = accept.max(1).min(buf.len());
        self.calls += 1;
        if accept < buf.len() {
            self.shortened += 1;
        }
        self.got.extend_from_slice(&buf[..accept]);
        Ok(accept)
    }
    /// Gathered writes are part of the Write contract too: the same acceptance limit applies to
    /// the concatenation of the buffers, so a request may be cut in the middle of a later buffer.
    fn write_vectored(&mut self, bufs: &[io::IoSlice<'_>]) -> io::Result<usize> {
        let total: usize = bufs.iter().map(|b| b.len()).sum();
        if total == 0 {
            return Ok(0);
        }
        let mut joined = Vec::with_capacity(total);
        for b in bufs {
            joined.extend_from_slice(b);
        }
        if bufs.iter().filter(|b| !b.is_empty()).count() > 1 {
            self.vectored += 1;
        }
        self.write(&joined)
    }
    fn flush(&mut self) -> io::Result<()> {
        Ok(())
    }
}

/// serialize into the sink; Ok(true) if the call reported success
fn serialize_into(p: &Program, sink: &mut Sink) -> Result<bool, String> {
    fmlrun::guarded(|| p.serialize(sink).is_ok())
}

fn check_schedule(p: &Program, reference: &[u8], sched: Schedule, ctx: &mut Ctx, case: &dyn Fn() -> Value) -> Judged {
    ctx.eval();
    let mut sink = Sink::new(sched.clone());
    let reported_ok = match serialize_into(p, &mut sink) {
        Ok(b) => b,
        Err(_) => false, // a panic is a (loud) failure, not a silent loss
    };
    if reported_ok && sink.got != reference {
        let kind = match sched {
            Schedule::Limit(_) => "limit",
            Schedule::Single { .. } => "single",
            Schedule::Random(_) => "random",
            Schedule::TransientError { .. } => "transient-error",
        };
        return ctx.settle(
            Violation::new(
                "silent-short-write",
                format!(
                    "serialize reported success but the sink received {} of {} bytes (first difference at {:?}); schedule {:?}, {} write calls, {} shortened",
                    sink.got.len(),
                    reference.len(),
                    crate::props::c03::first_diff(&sink.got, reference),
                    sched,
                    sink.calls,
                    sink.shortened
                ),
                case(),
            )
            .with("schedule", kind),
        );
    }
    if sink.shortened > 0 {
        ctx.label(if reported_ok { "shortened:complete-output" } else { "shortened:error-reported" });
        let mut id = reference.to_vec();
        id.extend_from_slice(format!("{:?}", sched).as_bytes());
        ctx.nontrivial(&id);
    } else {
        ctx.label("no-call-was-shortened");
    }
    Ok(())
}

/// programs with long string constants (with raw newlines), many constants and methods
fn long_string_program(t: &mut Tape) -> Prog {
    // besides fixed sizes, any length between 1 KiB and 4 KiB (length prefixes with every byte
    // value, in particular 0x0A, which a line-buffered stdout treats specially)
    let n = match t.pick(7) {
        0 => 1100usize,
        1 => 3000,
        2 => 9000,
        3 => 70_000,
        _ => 1025 + t.pick(3072),
    };
    let lead = ["x\n", "", "line one\nline two\n", "\n"][t.pick(4)];
    let mut s = String::from(lead);
    let fill = ["y", "ab", "é"][t.pick(3)];
    while s.len() < n {
        s.push_str(fill);
    }
    if fill == "y" {
        s.truncate(n.max(lead.len())); // exact byte length for the one-byte filler
    }
    let mut p: Prog = vec![print(&s, vec![])];
    let k = t.pick(6);
    for i in 0..k {
        p.push(E::Fun(format!("f{}", i), vec!["a".into()], bx(print(&format!("f{} ~\\n", i), vec![var("a")]))));
        p.push(call(&format!("f{}", i), vec![E::Int(i as i32 * 1000)]));
    }
    p
}

/// one method (the entry or a function) with thousands of instructions
fn long_code_program(t: &mut Tape) -> Prog {
    let n = [1200usize, 2500, 5000][t.pick(3)];
    let mut body: Vec<E> = vec![];
    for i in 0..n {
        body.push(match t.pick(5) {
            0 => print("x", vec![]),
            1 => print("~\n", vec![E::Int(i as i32)]),
            2 => E::Block(vec![let_("a", E::Int(1)), var("a")]),
            3 => bin("+", E::Int(i as i32), E::Int(10)),
            _ => print("line\n~", vec![E::Null]),
        });
    }
    if t.flag() {
        vec![E::Fun("big".into(), vec![], bx(E::Block(body))), call("big", vec![])]
    } else {
        body
    }
}

/// Long index tables: the globals table and a class's member table are u16 vectors whose length
/// the program decides (the other variable-length parts of the format - string bytes and a
/// method's code - have their own families above).
fn wide_table_program(t: &mut Tape) -> Prog {
    let n = [300usize, 2047, 2048, 2100, 4096, 4200, 6500][t.pick(7)];
    let val = |t: &mut Tape, i: usize| -> E {
        match t.pick(3) {
            0 => E::Int(0),
            1 => E::Int(i as i32),
            _ => E::Null,
        }
    };
    let mut p: Prog = vec![];
    match t.pick(4) {
        // globals only
        0 => {
            for i in 0..n {
                let v = val(t, i);
                p.push(let_(&format!("g{}", i), v));
            }
        }
        // one object with n fields
        1 => {
            let ms: Vec<Member> = (0..n).map(|i| Member::Field(format!("f{}", i), val(t, i))).collect();
            p.push(let_("wide", E::Object(None, ms)));
        }
        // functions are globals too; a few hundred of them mixed with variables
        2 => {
            for i in 0..n {
                if i % 8 == 0 {
                    p.push(E::Fun(format!("fn{}", i), vec![], bx(E::Int(i as i32))));
                } else {
                    let v = val(t, i);
                    p.push(let_(&format!("g{}", i), v));
                }
            }
        }
        // an object with n/2 fields and n/2 methods, and as many globals
        _ => {
            let mut ms: Vec<Member> = vec![];
            for i in 0..n / 2 {
                ms.push(Member::Field(format!("f{}", i), val(t, i)));
                ms.push(Member::Method(format!("m{}", i), vec![], E::Int(1)));
            }
            p.push(let_("wide", E::Object(None, ms)));
            for i in 0..n {
                p.push(let_(&format!("g{}", i), E::Int(0)));
            }
        }
    }
    p.push(print("done\\n", vec![]));
    p
}

fn judge_program(prog: &Prog, ctx: &mut Ctx, t: &mut Tape, tape: &[u8]) -> Judged {
    let src = render::text(prog, render::Style::Minimal);
    let case = || json!({"tape": hex(tape), "source_prefix": src.chars().take(300).collect::<String>(), "source_len": src.len()});
    let ast = fmlrun::parse(&src).map_err(|e| Violation::new("harness-error", format!("generated program does not parse: {}", e), case()))?;
    let p = fmlrun::compile(&ast).map_err(|e| Violation::new("harness-error", format!("generated program does not compile: {}", e), case()))?;
    let reference = fmlrun::serialize(&p).map_err(|e| Violation::new("serialize-failed", e, case()))?;
    // (i) constant per-call limits
    for k in [1usize, 2, 3, 4, 5, 7, 8, 13, 16, 64, 1000] {
        check_schedule(&p, &reference, Schedule::Limit(k), ctx, &case)?;
    }
    // (ii) every single write call shortened in turn
    let mut counter = Sink::new(Schedule::Limit(usize::MAX));
    let _ = serialize_into(&p, &mut counter);
    let calls = counter.calls;
    let cap = ctx.tier.pick(600, 4000);
    let stride = (calls + cap - 1) / cap.max(1);
    for c in 0..calls {
        if stride > 1 && c % stride != 0 {
            ctx.bump("single_call_positions_thinned_out", 1);
            continue;
        }
        check_schedule(&p, &reference, Schedule::Single { call: c, one_byte: false }, ctx, &case)?;
        check_schedule(&p, &reference, Schedule::Single { call: c, one_byte: true }, ctx, &case)?;
    }
    if stride <= 1 {
        ctx.label("single-call-enumeration-complete");
    }
    // (ii b) a transient error right after a partial acceptance, at up to 200 call positions: the
    // request must not be started over (the accepted part would arrive twice)
    let tstride = (calls / 200).max(1);
    for c in (0..calls).step_by(tstride) {
        check_schedule(&p, &reference, Schedule::TransientError { call: c }, ctx, &case)?;
    }
    // (iii) random schedules
    for _ in 0..ctx.tier.pick(6, 20) {
        let n = 1 + t.pick(7);
        let v: Vec<(usize, bool)> = (0..n).map(|_| ([0usize, 1, 2, 3, 5, 17, 100, 1024][t.pick(8)], t.chance(40))).collect();
        check_schedule(&p, &reference, Schedule::Random(v), ctx, &case)?;
    }
    ctx.sample(reference.len(), || json!({"source_prefix": src.chars().take(160).collect::<String>(), "image_bytes": reference.len(), "write_calls": calls}));
    Ok(())
}

// ------------------------------------------------------------------ the real stdout

fn cli_triples(ctx: &mut Ctx) -> Vec<Violation> {
    let mut out = vec![];
    let mut sc = cli::Scratch::new("C08", "w");
    let bin = cli::fml_release();
    let n = ctx.tier.pick(64, 600);
    // programs that compile although something in them is wrong (a print whose counts do not
    // match, an unknown function, a repeated field ... in a branch that is never taken): whatever
    // the compiler has to say about them must not travel on the channel that carries the image
    let odd: Vec<Prog> = crate::props::c02::constructs(None)
        .into_iter()
        .map(|(_, c)| {
            let mut p = crate::props::c02::prelude();
            p.push(E::If(bx(E::Bool(false)), bx(c), Some(bx(E::Null))));
            p.push(print("done\\n", vec![]));
            p
        })
        .collect();
    for i in 0..n + odd.len() {
        if !ctx.shard_mine(i) {
            continue;
        }
        let tape = crate::tools::random_tape(crate::tape::mix(ctx.seed ^ (i as u64 * 1_000_003)), 300);
        let mut t = Tape::new(&tape);
        let prog = if i >= n {
            ctx.label("cli-triple:compiles-but-wrong-somewhere");
            odd[i - n].clone()
        } else {
            match i % 8 {
                0 | 2 | 4 => long_string_program(&mut t),
                1 | 5 => long_code_program(&mut t),
                3 => wide_table_program(&mut t),
                _ => generate(&mut t, &Profile::full()).prog,
            }
        };
        let src = render::text(&prog, render::Style::Minimal);
        let fsrc = sc.file("p.fml");
        let fjson = sc.file("p.json");
        std::fs::write(&fsrc, &src).unwrap();
        let parse = cli::run_fml(&bin, &["parse", fsrc.to_str().unwrap(), "-o", fjson.to_str().unwrap()]);
        match parse {
            Ok(o) if o.status.success() => {}
            other => {
                out.push(Violation::new("harness-error", format!("fml parse failed for a generated program: {:?}", other.map(|o| o.err_str())), json!({})));
                continue;
            }
        }
        ctx.eval();
        ctx.label("cli-triple");
        // (1) -o file
        let fo = sc.file("o.bc");
        let a = cli::run_fml(&bin, &["compile", fjson.to_str().unwrap(), "-o", fo.to_str().unwrap()]);
        // (2) stdout redirected into a file
        let fr = sc.file("r.bc");
        let file = std::fs::File::create(&fr).unwrap();
        let b = std::process::Command::new(&bin)
            .args(&["compile", fjson.to_str().unwrap()])
            .stdin(std::process::Stdio::null())
            .stdout(std::process::Stdio::from(file))
            .stderr(std::process::Stdio::piped())
            .output();
        // (3) stdout into a pipe
        let c = cli::run_fml(&bin, &["compile", fjson.to_str().unwrap()]);
        let case = json!({"source_prefix": src.chars().take(300).collect::<String>(), "source_len": src.len(), "index": i});
        let (a, b, c) = match (a, b, c) {
            (Ok(a), Ok(b), Ok(c)) => (a, b, c),
            _ => {
                out.push(Violation::new("harness-error", "cannot run fml compile", json!({})));
                continue;
            }
        };
        let by_o = std::fs::read(&fo).unwrap_or_default();
        let by_redirect = std::fs::read(&fr).unwrap_or_default();
        let by_pipe = c.stdout.clone();
        // independent expectation: the in-process image of the same program
        let expect = fmlrun::parse(&src).ok().and_then(|ast| fmlrun::compile(&ast).ok()).and_then(|p| fmlrun::serialize(&p).ok());
        let mut problems = vec![];
        if !a.status.success() {
            problems.push(format!("compile -o: {:?} {}", a.status, a.err_str().chars().take(160).collect::<String>()));
        }
        let b_ok = b.status.success();
        if b_ok && by_redirect != by_o {
            problems.push(format!("`> file` wrote {} bytes and exited 0, `-o file` wrote {} bytes", by_redirect.len(), by_o.len()));
        }
        if c.status.success() && by_pipe != by_o {
            problems.push(format!("pipe received {} bytes with exit 0, `-o file` wrote {} bytes", by_pipe.len(), by_o.len()));
        }
        if let Some(e) = &expect {
            if a.status.success() && &by_o != e {
                problems.push(format!("`-o file` differs from the in-process image ({} vs {} bytes)", by_o.len(), e.len()));
            }
        }
        if !problems.is_empty() {
            let v = Violation::new("stdout-loses-bytes", problems.join("\n"), case).with("schedule", "real-stdout");
            if let Err(v) = ctx.settle(v) {
                out.push(v);
                if out.len() > 4 {
                    return out;
                }
            }
        } else if src.len() > 1024 {
            ctx.nontrivial(format!("cli|{}", src).as_bytes());
        }
    }
    out
}

/// `fml compile` with a stdout that does not block: a socket pair whose writing end is switched
/// to non-blocking and whose reader dawdles, so that the image (several hundred KB, made of
/// strings of 9000..21000 bytes) meets a full buffer in the middle of a request.  The pinned
/// tree gives up with an error (EAGAIN) - a refusal, which is fine; a tree that exits 0 must
/// have delivered exactly the image.
fn nonblocking_stdout(ctx: &mut Ctx) -> Vec<Violation> {
    use std::io::Read;
    use std::os::unix::net::UnixStream;
    let mut out = vec![];
    let bin = cli::fml_release();
    let mut sc = cli::Scratch::new("C08", "nb");
    for (k, len) in [9000usize, 17000, 21000].iter().enumerate() {
        if !ctx.shard_mine(k + 1) {
            continue;
        }
        let text: String = (0..*len).map(|i| (b'a' + ((i * 7 + k) % 26) as u8) as char).collect();
        let prog: Prog = (0..40).map(|i| print(&format!("{}{}", i, text), vec![])).collect();
        let src = render::text(&prog, render::Style::Minimal);
        let image = match fmlrun::parse(&src).and_then(|ast| fmlrun::compile(&ast)).and_then(|p| fmlrun::serialize(&p)) {
            Ok(b) => b,
            Err(e) => {
                out.push(Violation::new("harness-error", format!("cannot build the image: {}", e), json!({})));
                continue;
            }
        };
        let fsrc = sc.file("nb.fml");
        let fjson = sc.file("nb.json");
        std::fs::write(&fsrc, &src).unwrap();
        match cli::run_fml(&bin, &["parse", fsrc.to_str().unwrap(), "-o", fjson.to_str().unwrap()]) {
            Ok(o) if o.status.success() => {}
            _ => {
                out.push(Violation::new("harness-error", "fml parse failed", json!({})));
                continue;
            }
        }
        let (mut ours, theirs) = match UnixStream::pair() {
            Ok(p) => p,
            Err(e) => {
                out.push(Violation::new("harness-error", format!("socketpair: {}", e), json!({})));
                continue;
            }
        };
        if theirs.set_nonblocking(true).is_err() {
            continue;
        }
        let fd: std::os::fd::OwnedFd = theirs.into();
        let child = std::process::Command::new(&bin)
            .args(&["compile", fjson.to_str().unwrap()])
            .stdin(std::process::Stdio::null())
            .stdout(std::process::Stdio::from(fd))
            .stderr(std::process::Stdio::null())
            .spawn();
        let mut child = match child {
            Ok(c) => c,
            Err(e) => {
                out.push(Violation::new("harness-error", format!("cannot run fml: {}", e), json!({})));
                continue;
            }
        };
        ctx.eval();
        ctx.label("non-blocking-stdout");
        // a reader that starts late and reads in small pieces with pauses
        std::thread::sleep(std::time::Duration::from_millis(400));
        let mut got: Vec<u8> = vec![];
        let mut buf = [0u8; 4096];
        let _ = ours.set_read_timeout(Some(std::time::Duration::from_secs(20)));
        loop {
            match ours.read(&mut buf) {
                Ok(0) => break,
                Ok(n) => {
                    got.extend_from_slice(&buf[..n]);
                    if got.len() % (64 * 1024) < 4096 {
                        std::thread::sleep(std::time::Duration::from_millis(3));
                    }
                    if got.len() > 8 * image.len() + (1 << 20) {
                        let _ = child.kill(); // a writer that repeats itself without end
                        break;
                    }
                }
                Err(_) => {
                    let _ = child.kill();
                    break;
                }
            }
        }
        let status = child.wait();
        let ok_exit = status.as_ref().map(|s| s.success()).unwrap_or(false);
        if ok_exit && got != image {
            let v = Violation::new(
                "stdout-loses-bytes",
                format!("`fml compile` with a non-blocking stdout and a slow reader exits 0 after delivering {} bytes; the image has {} bytes (first difference at {:?})", got.len(), image.len(), crate::props::c03::first_diff(&got, &image)),
                json!({"nonblocking_stdout": true, "string_length": len}),
            )
            .with("schedule", "non-blocking-stdout");
            if let Err(v) = ctx.settle(v) {
                out.push(v);
            }
        } else {
            ctx.label(if ok_exit { "non-blocking-stdout:complete" } else { "non-blocking-stdout:gives-up-with-an-error" });
            ctx.nontrivial(format!("nb|{}", len).as_bytes());
        }
    }
    out
}

impl Property for C08 {
    fn id(&self) -> &'static str {
        "C08"
    }
    fn level(&self) -> &'static str {
        "fault_enumeration"
    }
    fn rule(&self) -> String {
        "cases: (program families: generated / long strings / long code / wide tables = 2047..6500 globals, fields, methods, functions; counted as family:*) programs from the typed generator, programs whose single method holds 1200-5000 statements (several 4 KiB blocks of instructions) and programs with string constants of 1.1/3/9/70 KiB (with and without leading raw newlines) and several methods; for each program Program::serialize is called in-process on sinks that honour the Write contract: (i) every per-call acceptance limit k in {1,2,3,4,5,7,8,13,16,64,1000}; (ii) EVERY single write call in turn shortened to ceil(len/2) and to 1 byte (complete for programs up to 600 write calls in quick / 4000 in thorough, beyond that evenly thinned with the count reported); (ii b) at up to 200 call positions a call that accepts half of its request followed by one Err(WouldBlock); (iii) tape-driven schedules incl. Err(Interrupted) before accepting. oracle: the call returns an error, or the sink holds exactly the bytes of serializing into memory. Real stdout: `fml compile x.json -o f`, `> f` and `| reader` must give identical files (and equal the in-process image). non-trivial: at least one write call was actually shortened (counted by the sink); distinct by (image, schedule)".into()
    }
    fn assumptions(&self) -> Vec<String> {
        vec!["sinks never return Ok(0) for a non-empty buffer and never lie about the count (the usual Write contract)".into()]
    }
    fn random_cases(&self, tier: Tier) -> u64 {
        tier.pick(3_000, 90_000)
    }
    fn max_shrink_iters(&self) -> u32 {
        200
    }
    fn fixed_parts(&self, ctx: &mut Ctx) -> Vec<Violation> {
        let mut out = cli_triples(ctx);
        out.extend(nonblocking_stdout(ctx));
        out
    }
    fn judge_tape(&self, tape: &[u8], ctx: &mut Ctx) -> Judged {
        let mut t = Tape::new(tape);
        let family = t.weighted(&[36, 12, 4, 1]);
        ctx.label(["family:generated", "family:long-strings", "family:long-code", "family:wide-tables"][family]);
        let prog = match family {
            0 => generate(&mut t, &Profile::full()).prog,
            1 => long_string_program(&mut t),
            2 => long_code_program(&mut t),
            _ => wide_table_program(&mut t),
        };
        judge_program(&prog, ctx, &mut t, tape)
    }
    fn replay(&self, case: &Value, ctx: &mut Ctx) -> Judged {
        if let Some(src) = case["source"].as_str() {
            let ast = fmlrun::parse(src).map_err(|e| Violation::new("harness-error", e, case.clone()))?;
            let prog = from_fml_ast(&ast);
            let tape = [0u8; 8];
            let mut t = Tape::new(&tape);
            return judge_program(&prog, ctx, &mut t, &tape);
        }
        if let Some(t) = case["tape"].as_str() {
            if let Some(bytes) = crate::tape::unhex(t) {
                return self.judge_tape(&bytes, ctx);
            }
        }
        if case["nonblocking_stdout"].as_bool() == Some(true) {
            // the whole leg again (three programs): the first complaint, if any
            let c = ctx.index;
            let _ = c;
            let mut vs = nonblocking_stdout(ctx);
            return if vs.is_empty() { Ok(()) } else { Err(vs.remove(0)) };
        }
        Err(Violation::new("harness-error", "unusable replay case", case.clone()))
    }
}
