//! C15 — print: positional substitution, escape decoding, canonical value rendering.

use crate::bc::model::*;
use crate::bc::writer;
use crate::fmlrun::{self, Exec};
use crate::harness::*;
use crate::ir::*;
use crate::props::c05::Asm;
use crate::refsem::{self, format_print, Outcome};
use crate::render;
use crate::tape::{hex, Tape};
use serde_json::{json, Value};

pub struct C15;

const ALPHA: [char; 9] = ['~', '\\', 'n', '"', 'a', '\n', 'é', 't', 'r'];

fn nth_string(mut k: usize, len: usize) -> String {
    let mut s = String::new();
    for _ in 0..len {
        s.push(ALPHA[k % 9]);
        k /= 9;
    }
    s
}

/// escape scanning must not end inside an escape (a dangling final backslash has no stated meaning)
fn ends_inside_escape(s: &str) -> bool {
    let mut esc = false;
    for c in s.chars() {
        if esc {
            esc = false;
        } else if c == '\\' {
            esc = true;
        }
    }
    esc
}

/// does the FML lexer admit `"<s>"` as a string literal?
fn lexer_admits(s: &str) -> bool {
    let mut it = s.chars();
    while let Some(c) = it.next() {
        match c {
            '"' => return false,
            '\\' => match it.next() {
                Some('~') | Some('n') | Some('t') | Some('r') | Some('\\') | Some('"') => {}
                _ => return false,
            },
            _ => {}
        }
    }
    true
}

fn bytecode_case(fmt: &str, nargs: usize, ctx: &mut Ctx) -> Judged {
    ctx.eval();
    let args: Vec<String> = (0..nargs).map(|i| (i as i32 * 10 - 7).to_string()).collect();
    let want = format_print(fmt, &args);
    let mut a = Asm::new();
    for i in 0..nargs {
        a.int(i as i32 * 10 - 7);
    }
    let f = a.s(fmt);
    a.e(Ins::Print(f, nargs as u8));
    a.print("<~>", 1); // the value of print is null
    let m = a.finish(false);
    let bytes = writer::write(&m);
    let case = || json!({"format": fmt, "args": nargs, "level": "bytecode", "bytes": hex(&bytes)});
    let p = match fmlrun::load(&bytes) {
        Ok(p) => p,
        Err(e) => return ctx.settle(Violation::new("load-failed", e, case())),
    };
    let r = fmlrun::run_stepped(&p, 1000);
    judge_print(fmt, nargs, &want, &r.out, &r.exec, ctx, &case, "bytecode")
}

fn judge_print(fmt: &str, nargs: usize, want: &Result<String, String>, out: &str, exec: &Exec, ctx: &mut Ctx, case: &dyn Fn() -> Value, level: &str) -> Judged {
    let ok = match (want, exec) {
        (Ok(s), Exec::Ok) => out == format!("{}<null>", s),
        (Err(_), Exec::Fail(_)) => out.is_empty(),
        _ => false,
    };
    if !ok {
        let kind = match want {
            Ok(_) => "wrong-print-output",
            Err(_) => "print-failure-not-clean",
        };
        return ctx.settle(
            Violation::new(
                kind,
                format!("format {:?} with {} argument(s) at {} level:\nexpected {:?}\nactual   {:?} output {:?}", fmt, nargs, level, want.as_ref().map(|s| format!("{}<null>", s)), exec, out),
                case(),
            )
            .with("level", level),
        );
    }
    let placeholders = {
        let mut n = 0;
        let mut esc = false;
        for c in fmt.chars() {
            if esc {
                esc = false;
            } else if c == '\\' {
                esc = true;
            } else if c == '~' {
                n += 1;
            }
        }
        n
    };
    let has_escape = fmt.contains('\\');
    if want.is_err() {
        ctx.label("mismatch-or-bad-escape");
    }
    if (placeholders >= 1 && has_escape) || placeholders != nargs {
        ctx.nontrivial(format!("{}|{}|{}", level, fmt, nargs).as_bytes());
    }
    Ok(())
}

fn source_case(fmt: &str, nargs: usize, ctx: &mut Ctx) -> Judged {
    ctx.eval();
    let args: Vec<String> = (0..nargs).map(|i| (i as i32 * 10 - 7).to_string()).collect();
    let want = format_print(fmt, &args);
    let prog: Prog = vec![print("<~>", vec![E::Print(fmt.to_string(), (0..nargs).map(|i| E::Int(i as i32 * 10 - 7)).collect())])];
    let src = render::text(&prog, render::Style::Minimal);
    let case = || json!({"format": fmt, "args": nargs, "level": "source", "source": src});
    let pipe = match fmlrun::pipeline(&src) {
        Ok(p) => p,
        Err(e) => return ctx.settle(Violation::new("source-rejected", format!("{:?}\n{}", e, src), case())),
    };
    let r = fmlrun::run_stepped(&pipe.loaded, 1000);
    judge_print(fmt, nargs, &want, &r.out, &r.exec, ctx, &case, "source")
}

// ------------------------------------------------------------------ random values

const FNAMES: [&str; 9] = ["b", "B", "_a", "aa", "a_", "a0", "Z9", "a", "zz"];

fn gen_value(t: &mut Tape, d: usize, uniq: &mut usize) -> E {
    if d == 0 {
        return match t.pick(4) {
            0 => E::Int(t.i32_edge()),
            1 => E::Bool(t.flag()),
            2 => E::Null,
            _ => E::Int(t.pick(10) as i32),
        };
    }
    match t.weighted(&[3, 5, 6, 3]) {
        0 => gen_value(t, 0, uniq),
        3 => {
            // the same heap value reached twice (shared, NOT cyclic): it renders in full each time
            *uniq += 1;
            let name = format!("s{}", uniq);
            let shared = gen_value(t, d - 1, uniq);
            let user = match t.pick(4) {
                0 => E::Array(bx(E::Int(2 + t.pick(2) as i32)), bx(var(&name))),
                1 => E::Object(None, vec![Member::Field("x".into(), var(&name)), Member::Field("a".into(), var(&name))]),
                2 => E::Object(Some(bx(var(&name))), vec![Member::Field("f".into(), var(&name))]),
                _ => E::Object(None, vec![Member::Field("p".into(), E::Array(bx(E::Int(2)), bx(var(&name)))), Member::Field("q".into(), var(&name))]),
            };
            E::Block(vec![E::Let(name, bx(shared)), user])
        }
        1 => {
            // array with individually set elements
            let n = t.pick(4);
            *uniq += 1;
            let name = format!("t{}", uniq);
            let mut items = vec![E::Let(name.clone(), bx(E::Array(bx(E::Int(n as i32)), bx(E::Null))))];
            for i in 0..n {
                let v = gen_value(t, d - 1, uniq);
                items.push(E::IndexSet(bx(var(&name)), bx(E::Int(i as i32)), bx(v)));
            }
            items.push(var(&name));
            E::Block(items)
        }
        _ => {
            let parent = match t.weighted(&[5, 2, 1, 2, 3]) {
                0 => None,
                1 => Some(bx(E::Int(t.i32_edge()))),
                2 => Some(bx(E::Bool(t.flag()))),
                3 => Some(bx(E::Array(bx(E::Int(t.pick(3) as i32)), bx(E::Int(t.pick(9) as i32))))),
                _ => Some(bx(gen_value(t, d - 1, uniq))),
            };
            let n = t.pick(6);
            let mut names: Vec<&str> = vec![];
            let mut ms = vec![];
            for _ in 0..n {
                let f = FNAMES[t.pick(FNAMES.len())];
                if names.contains(&f) {
                    continue;
                }
                names.push(f);
                ms.push(Member::Field(f.to_string(), gen_value(t, d - 1, uniq)));
                if t.chance(30) {
                    ms.push(Member::Method(format!("m{}", names.len()), vec![], E::Null));
                }
            }
            E::Object(parent, ms)
        }
    }
}

fn fields_out_of_order(e: &E) -> bool {
    match e {
        E::Object(_, ms) => {
            let names: Vec<&String> = ms.iter().filter_map(|m| if let Member::Field(n, _) = m { Some(n) } else { None }).collect();
            let mut sorted = names.clone();
            sorted.sort_by(|a, b| a.as_bytes().cmp(b.as_bytes()));
            (names.len() >= 2 && names != sorted) || e.children().iter().any(|c| fields_out_of_order(c))
        }
        _ => e.children().iter().any(|c| fields_out_of_order(c)),
    }
}

/// Large outputs through the real binaries (`fml run` and compile + `fml execute`): stdout is a
/// line-buffered 1 KiB writer, so texts with a newline followed by more than a kilobyte, and
/// texts of many kilobytes, are the interesting ones.
/// Raw characters in a format literal, through the real command line: what the binary reads
/// from a file or from stdin must reach the VM unchanged ("every other character unchanged").
/// The in-process pipeline never touches the code that reads source text.
fn raw_characters(ctx: &mut Ctx) -> Vec<Violation> {
    let mut out = vec![];
    let rel = crate::cli::fml_release();
    let mut sc = crate::cli::Scratch::new("C15", "raw");
    let specials: [&str; 18] = [
        "\r", "\r\n", "\n\r", "\r\r\n", "\t", "\u{b}", "\u{c}", "\u{1b}", "\u{7f}", "\u{85}", "\u{a0}", "\u{2028}", "\u{2029}", "\u{feff}", "\u{200b}", "é", "👍", "\u{301}",
    ];
    let mut k = 0;
    for c in specials.iter() {
        for shape in 0..4 {
            k += 1;
            if !ctx.shard_mine(k) {
                continue;
            }
            // the character inside a format literal: in the middle, at both ends, next to a
            // placeholder, and in a file whose other line breaks are CR LF as well
            let lit = match shape {
                0 => format!("a{}b", c),
                1 => format!("{}x{}", c, c),
                2 => format!("~{}~", c),
                _ => format!("p{}q", c),
            };
            let nargs = lit.matches('~').count();
            let args: Vec<String> = (0..nargs).map(|i| (i + 1).to_string()).collect();
            let call = if nargs == 0 { format!("print(\"{}\")", lit) } else { format!("print(\"{}\", {})", lit, args.join(", ")) };
            let sep = if shape == 3 { "\r\n" } else { "\n" };
            let src = format!("print(\"<\");{}{};{}print(\">\\n\")", sep, call, sep);
            // expectation: the in-process pipeline on the same text (judged against the
            // reference semantics by the other parts of this check)
            let pipe = match fmlrun::pipeline(&src) {
                Ok(p) => p,
                Err(_) => {
                    ctx.exclude("raw-character-not-admitted-by-the-lexer");
                    continue;
                }
            };
            let want = fmlrun::run_stepped(&pipe.loaded, 10_000);
            if !want.exec.is_ok() {
                ctx.exclude("raw-character-program-fails");
                continue;
            }
            let fsrc = sc.file("raw.fml");
            std::fs::write(&fsrc, &src).unwrap();
            for how in ["fml run FILE", "fml run < FILE"] {
                ctx.eval();
                ctx.label("raw-character-through-binary");
                let inv = if how.ends_with("< FILE") { crate::cli::Invocation::new(&rel, &["run"]).stdin(src.as_bytes()) } else { crate::cli::Invocation::new(&rel, &["run", fsrc.to_str().unwrap()]) };
                match inv.run() {
                    Err(e) => out.push(Violation::new("harness-error", format!("cannot run fml: {}", e), json!({}))),
                    Ok(o) => {
                        if o.stdout != want.out.as_bytes() || !o.status.success() {
                            let v = Violation::new(
                                "wrong-print-output",
                                format!("{}: format literal {:?} prints {:?} (status {:?}), the same text compiled in-process prints {:?}", how, lit, o.out_str(), o.status, want.out),
                                json!({"source": src, "level": "cli-raw"}),
                            )
                            .with("level", "cli");
                            if let Err(v) = ctx.settle(v) {
                                out.push(v);
                            }
                        } else {
                            ctx.nontrivial(format!("raw|{}|{:?}|{}", how, c, shape).as_bytes());
                        }
                    }
                }
            }
            if out.len() > 6 {
                return out;
            }
        }
    }
    out
}

fn large_outputs(ctx: &mut Ctx) -> Vec<Violation> {
    let mut out = vec![];
    let rel = crate::cli::fml_release();
    let dbg = crate::cli::fml_debug();
    let mut sc = crate::cli::Scratch::new("C15", "w");
    let sizes = [100usize, 341, 342, 343, 400, 1000, 5000];
    let formats = ["~", "~\\n", "v:\\n~", "a\\nb\\n~ tail", "~\\n~", "é\\n~\\t|", "x ~ y\\n~ z"];
    let mut k = 0;
    for n in sizes.iter() {
        for f in formats.iter() {
            k += 1;
            if !ctx.shard_mine(k) {
                continue;
            }
            let places = f.matches('~').count();
            let mut args = vec![E::Array(bx(E::Int(*n as i32)), bx(E::Int(7)))];
            if places == 2 {
                args.push(E::Object(None, vec![Member::Field("big".into(), E::Array(bx(E::Int(*n as i32 / 2)), bx(E::Bool(true))))]));
            }
            let prog: Prog = vec![print(f, args), print("\\nend\\n", vec![])];
            let r = refsem::run(&prog, 10_000_000);
            if r.outcome != Outcome::Ok {
                continue;
            }
            let src = render::text(&prog, render::Style::Minimal);
            let fsrc = sc.file("big.fml");
            std::fs::write(&fsrc, &src).unwrap();
            let fbc = sc.file("big.bc");
            let image = fmlrun::pipeline(&src).map(|p| p.bytes).unwrap_or_default();
            std::fs::write(&fbc, &image).unwrap();
            for (how, bin, args) in vec![
                ("fml run (release)", &rel, vec!["run", fsrc.to_str().unwrap()]),
                ("fml run (debug)", &dbg, vec!["run", fsrc.to_str().unwrap()]),
                ("fml execute (release)", &rel, vec!["execute", fbc.to_str().unwrap()]),
            ] {
                ctx.eval();
                ctx.label("large-output-through-binary");
                match crate::cli::run_fml(bin, &args) {
                    Err(e) => out.push(Violation::new("harness-error", format!("cannot run fml: {}", e), json!({}))),
                    Ok(o) => {
                        if o.out_str() != r.out || !o.status.success() {
                            let v = Violation::new(
                                "wrong-print-output",
                                format!("{}: array of {} elements through format {:?}: {} bytes on stdout (status {:?}), expected {} bytes; first difference at {:?}", how, n, f, o.stdout.len(), o.status, r.out.len(), crate::props::c03::first_diff(&o.stdout, r.out.as_bytes())),
                                json!({"source": src, "level": "cli"}),
                            )
                            .with("level", "cli");
                            if let Err(v) = ctx.settle(v) {
                                out.push(v);
                            }
                        } else {
                            ctx.nontrivial(format!("cli|{}|{}|{}", how, n, f).as_bytes());
                        }
                    }
                }
            }
            if out.len() > 6 {
                return out;
            }
        }
    }
    out
}

/// A history: a three-level value (leaf inside mid inside top) is printed, something inside it
/// is changed - through the leaf's own name, through a path from mid or from top, through an
/// alias, or by replacing a part - and it is printed again, several times over.  Every print
/// must show the value as it is then (the reference semantics is the oracle); a rendering that
/// remembers anything between prints shows here.
fn judge_history(t: &mut Tape, tape: &[u8], ctx: &mut Ctx) -> Judged {
    let leaf_is_array = t.flag();
    let leaf = if leaf_is_array { E::Array(bx(E::Int(2)), bx(E::Int(1))) } else { E::Object(None, vec![Member::Field("x".into(), E::Int(1)), Member::Field("y".into(), E::Null)]) };
    // how mid holds leaf: 0 = array element, 1 = field, 2 = parent
    let mid_kind = t.pick(3);
    let mid = match mid_kind {
        0 => E::Array(bx(E::Int(2)), bx(var("leaf"))),
        1 => E::Object(None, vec![Member::Field("a".into(), var("leaf")), Member::Field("k".into(), E::Int(3))]),
        _ => E::Object(Some(bx(var("leaf"))), vec![Member::Field("k".into(), E::Int(3))]),
    };
    let top_kind = t.pick(3);
    let top = match top_kind {
        0 => E::Array(bx(E::Int(2)), bx(var("mid"))),
        1 => E::Object(None, vec![Member::Field("m".into(), var("mid")), Member::Field("b".into(), E::Bool(true))]),
        _ => E::Object(Some(bx(var("mid"))), vec![Member::Field("b".into(), E::Bool(true))]),
    };
    let mut prog: Prog = vec![let_("leaf", leaf), let_("mid", mid), let_("top", top), let_("other", E::Array(bx(E::Int(1)), bx(E::Int(8)))), let_("alias", var("leaf"))];
    let show = |p: &mut Prog, k: usize| p.push(print(&format!("{}: ~ | ~ | ~\\n", k), vec![var("top"), var("mid"), var("leaf")]));
    show(&mut prog, 0);
    // paths to the leaf that exist for these kinds
    let mut leaf_paths: Vec<E> = vec![var("leaf"), var("alias")];
    let mid_to_leaf = |m: E| -> Option<E> {
        match mid_kind {
            0 => Some(index(m, E::Int(0))),
            1 => Some(field(m, "a")),
            _ => None,
        }
    };
    let mut mid_paths: Vec<E> = vec![var("mid")];
    match top_kind {
        0 => mid_paths.push(index(var("top"), E::Int(1))),
        1 => mid_paths.push(field(var("top"), "m")),
        _ => {}
    }
    for m in mid_paths.clone() {
        if let Some(p) = mid_to_leaf(m) {
            leaf_paths.push(p);
        }
    }
    let steps = 2 + t.pick(3);
    for k in 1..=steps {
        let val = match t.pick(5) {
            0 => E::Int(10 + k as i32),
            1 => E::Null,
            2 => E::Bool(false),
            3 => var("other"),
            _ => E::Int(-(k as i32)),
        };
        let stmt = match t.pick(6) {
            // change the leaf in place through one of its paths
            0 | 1 | 2 => {
                let p = leaf_paths[t.pick(leaf_paths.len())].clone();
                if leaf_is_array {
                    E::IndexSet(bx(p), bx(E::Int(t.pick(2) as i32)), bx(val))
                } else {
                    E::FieldSet(bx(p), ["x", "y"][t.pick(2)].to_string(), bx(val))
                }
            }
            // change mid's own field through one of its paths
            3 => {
                let p = mid_paths[t.pick(mid_paths.len())].clone();
                if mid_kind == 0 {
                    E::IndexSet(bx(p), bx(E::Int(1)), bx(val))
                } else {
                    E::FieldSet(bx(p), "k".into(), bx(val))
                }
            }
            // change top's own part
            4 => match top_kind {
                0 => E::IndexSet(bx(var("top")), bx(E::Int(0)), bx(val)),
                _ => E::FieldSet(bx(var("top")), "b".into(), bx(val)),
            },
            // change the array that `other` names (it may have been stored somewhere by now)
            _ => E::IndexSet(bx(var("other")), bx(E::Int(0)), bx(E::Int(100 + k as i32))),
        };
        prog.push(stmt);
        show(&mut prog, k);
    }
    let r = refsem::run(&prog, refsem::DEFAULT_FUEL);
    if r.outcome != Outcome::Ok {
        ctx.exclude("history:reference-not-ok");
        return Ok(());
    }
    let src = render::text(&prog, render::Style::Minimal);
    let case = || json!({"tape": hex(tape), "history": true, "source": render::pretty(&prog)});
    let pipe = match fmlrun::pipeline(&src) {
        Ok(p) => p,
        Err(e) => return ctx.settle(Violation::new("source-rejected", format!("{:?}", e), case())),
    };
    let x = fmlrun::run_stepped(&pipe.loaded, 1000 + 400 * r.steps);
    if !x.exec.is_ok() || x.out != r.out {
        return ctx.settle(Violation::new("wrong-value-rendering", format!("print / change / print history:\nexpected {:?}\nactual   {:?} {:?}", r.out, x.exec, x.out), case()));
    }
    ctx.label("print-change-print-history");
    ctx.nontrivial(src.as_bytes());
    ctx.sample(src.len(), || json!({"source": render::pretty(&prog), "expected": r.out}));
    Ok(())
}

impl Property for C15 {
    fn id(&self) -> &'static str {
        "C15"
    }
    fn fuzzable(&self) -> bool {
        true
    }
    fn rule(&self) -> String {
        "cases: (exhaustive, bytecode level) every format string of length <= 5 (thorough: 6) over {~, \\, n, \", a, LF, é, t, r} (the statement's seven symbols plus t and r, so that all six escapes occur) in which escape scanning does not end inside an escape, each with 0-3 integer arguments, built with the independent writer and run in the VM; (exhaustive, source level) the subset the lexer admits, through the real parser and compiler; (random) nested arrays/objects to depth 5 incl. values that reach the same array/object twice (shared, acyclic), empty array/object, parents of every kind, field names whose declaration order differs from byte-wise order, printed through several placeholder positions. (real binaries) arrays of 100..5000 elements through 7 formats (newline followed by more than 1 KiB, several KiB without newline) via `fml run` release/debug and `fml execute`. oracle: own formatter (escapes, positional ~, mismatch fails without output, result null) and own renderer. non-trivial: a format with >=1 placeholder and >=1 escape, or a count mismatch, or a value of depth >=2 with >=2 fields out of order; distinct by (level, format, args) / source".into()
    }
    fn assumptions(&self) -> Vec<String> {
        vec!["a format ending in a lone backslash has no stated meaning and is left out (count reported)".into()]
    }
    fn random_cases(&self, tier: Tier) -> u64 {
        tier.pick(200_000, 4_000_000)
    }
    fn exhaustive_note(&self, tier: Tier) -> Option<String> {
        let l = tier.pick(5, 6);
        let n: usize = (0..=l).map(|k| 9usize.pow(k as u32)).sum();
        Some(format!("all {} strings of length <= {} over a 9-symbol alphabet x 0-3 arguments (bytecode level; source level = the lexer-admitted subset); random value part not exhaustive", n, l))
    }
    fn fixed_parts(&self, ctx: &mut Ctx) -> Vec<Violation> {
        let mut out = vec![];
        let maxlen = ctx.tier.pick(5, 6);
        let mut k = 0usize;
        for len in 0..=maxlen {
            for i in 0..9usize.pow(len as u32) {
                k += 1;
                if !ctx.shard_mine(k) {
                    continue;
                }
                let s = nth_string(i, len);
                if ends_inside_escape(&s) {
                    ctx.exclude("format-ends-inside-escape");
                    continue;
                }
                let admits = lexer_admits(&s);
                for nargs in 0..=3usize {
                    if let Err(v) = bytecode_case(&s, nargs, ctx) {
                        out.push(v);
                    }
                    if admits {
                        ctx.label("source-level");
                        if let Err(v) = source_case(&s, nargs, ctx) {
                            out.push(v);
                        }
                    }
                }
                if out.len() > 12 {
                    return out;
                }
            }
        }
        out.extend(large_outputs(ctx));
        out.extend(raw_characters(ctx));
        out
    }
    fn judge_tape(&self, tape: &[u8], ctx: &mut Ctx) -> Judged {
        ctx.eval();
        let mut t = Tape::new(tape);
        if t.chance(80) {
            return judge_history(&mut t, tape, ctx);
        }
        let mut uniq = 0;
        let n = 1 + t.pick(3);
        let mut vals = vec![];
        for _ in 0..n {
            let d = t.pick(6);
            vals.push(gen_value(&mut t, d, &mut uniq));
        }
        let mut fmt = String::new();
        for i in 0..n {
            fmt.push_str(["", "x=", "\\t", "é ", "\\~"][t.pick(5)]);
            fmt.push('~');
            if i + 1 < n {
                fmt.push_str([" ", ", ", "|", "\\n"][t.pick(4)]);
            }
        }
        fmt.push_str("\\n");
        let deep = vals.iter().any(|v| v.depth() >= 4 && fields_out_of_order(v));
        // a quarter of the prints run while operands of an enclosing expression are waiting on
        // the operand stack: as the second argument of a call, of another print or of a method, as
        // the right operand of an operator, as a later member of an object, as an array initializer
        let inner = print(&fmt, vals);
        let prog: Prog = if t.chance(64) {
            ctx.label("print-with-pending-operands");
            let two = E::Fun("two".into(), vec!["a".into(), "b".into()], bx(print("two ~ ~\\n", vec![var("a"), var("b")])));
            match t.pick(7) {
                0 => vec![two, call("two", vec![E::Int(7), inner])],
                1 => vec![print("outer ~ ~ ~\\n", vec![E::Int(1), inner, E::Int(3)])],
                2 => vec![print("sum ~\\n", vec![bin("+", E::Int(8), E::Block(vec![inner, E::Int(2)]))])],
                3 => vec![print("obj ~\\n", vec![E::Object(None, vec![Member::Field("a".into(), E::Int(7)), Member::Field("b".into(), inner), Member::Field("c".into(), E::Int(9))])])],
                4 => vec![print("arr ~\\n", vec![E::Array(bx(E::Int(2)), bx(inner))])],
                5 => vec![two, call("two", vec![E::Block(vec![inner.clone(), E::Int(1)]), E::Block(vec![inner, E::Int(2)])])],
                _ => vec![let_("o", E::Object(None, vec![Member::Method("m".into(), vec!["a".into(), "b".into()], print("m ~ ~\\n", vec![var("a"), var("b")]))])), mcall(var("o"), "m", vec![E::Int(5), inner])],
            }
        } else {
            vec![inner]
        };
        let r = refsem::run(&prog, refsem::DEFAULT_FUEL);
        if r.outcome != Outcome::Ok {
            ctx.exclude("reference-not-ok");
            return Ok(());
        }
        let src = render::text(&prog, render::Style::Minimal);
        let case = || json!({"tape": hex(tape), "source": render::pretty(&prog)});
        let pipe = match fmlrun::pipeline(&src) {
            Ok(p) => p,
            Err(e) => return ctx.settle(Violation::new("source-rejected", format!("{:?}", e), case())),
        };
        let x = fmlrun::run_stepped(&pipe.loaded, 1000 + 400 * r.steps);
        if !x.exec.is_ok() || x.out != r.out {
            return ctx.settle(Violation::new("wrong-value-rendering", format!("expected {:?}\nactual   {:?} {:?}", r.out, x.exec, x.out), case()));
        }
        if deep {
            ctx.label("deep-value-with-unordered-fields");
            ctx.nontrivial(src.as_bytes());
        }
        ctx.sample(src.len(), || json!({"source": render::pretty(&prog), "expected": r.out}));
        Ok(())
    }
    fn replay(&self, case: &Value, ctx: &mut Ctx) -> Judged {
        if let (Some(f), Some(n)) = (case["format"].as_str(), case["args"].as_u64()) {
            return if case["level"].as_str() == Some("source") { source_case(f, n as usize, ctx) } else { bytecode_case(f, n as usize, ctx) };
        }
        if let Some(t) = case["tape"].as_str() {
            if let Some(bytes) = crate::tape::unhex(t) {
                return self.judge_tape(&bytes, ctx);
            }
        }
        if let Some(src) = case["source"].as_str() {
            // a program judged through the binaries: the same text compiled in-process is the
            // expectation (as in raw_characters / large_outputs)
            ctx.eval();
            let pipe = fmlrun::pipeline(src).map_err(|e| Violation::new("harness-error", format!("{:?}", e), case.clone()))?;
            let want = fmlrun::run_stepped(&pipe.loaded, 50_000_000);
            let rel = crate::cli::fml_release();
            let mut sc = crate::cli::Scratch::new("C15", "replay");
            let f = sc.file("replay.fml");
            std::fs::write(&f, src).unwrap();
            for stdin in [false, true] {
                let inv = if stdin { crate::cli::Invocation::new(&rel, &["run"]).stdin(src.as_bytes()) } else { crate::cli::Invocation::new(&rel, &["run", f.to_str().unwrap()]) };
                let o = inv.run().map_err(|e| Violation::new("harness-error", e.to_string(), json!({})))?;
                if o.stdout != want.out.as_bytes() || o.status.success() != want.exec.is_ok() {
                    return Err(Violation::new("wrong-print-output", format!("fml run ({}): prints {:?} (status {:?}), in-process {:?}", if stdin { "stdin" } else { "file" }, o.out_str().chars().take(300).collect::<String>(), o.status, want.out.chars().take(300).collect::<String>()), case.clone()).with("level", "cli"));
                }
            }
            return Ok(());
        }
        Err(Violation::new("harness-error", "unusable replay case", case.clone()))
    }
}
