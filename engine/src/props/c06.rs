//! C06 — staged parse | compile | execute equals run, for every AST interchange format.
//! Everything goes through the real release binary, as a user would.

use crate::cli::{self, CliOut, Invocation, Status};
use crate::fmlrun;
use crate::gen::prog::{generate, Profile};
use crate::harness::*;
use crate::ir::*;
use crate::parser::AST;
use crate::render;
use crate::tape::{hex, Tape};
use serde_json::{json, Value};
use std::cell::RefCell;
use std::path::PathBuf;

pub struct C06;

pub const FORMATS: [&str; 3] = ["json", "lisp", "yaml"];

#[derive(Clone, Copy, Debug, PartialEq)]
pub enum ParseOut {
    /// -o FILE (no extension) --format F
    FileExplicit,
    /// -o FILE.ext, format inferred from the extension
    FileInferred,
    /// -o FILE.EXT (upper case), format inferred
    FileInferredUpper,
    /// -o DIR --format F  (file name derived from the input)
    DirExplicit,
    /// stdout --format F
    Stdout,
}

#[derive(Clone, Copy, Debug, PartialEq)]
pub enum CompileOut {
    File,
    Dir,
    Stdout,
}

#[derive(Clone, Copy, Debug)]
pub struct Cfg {
    pub parse_out: ParseOut,
    pub parse_stdin: bool,
    pub compile_stdin: bool,
    /// pass --input-format even where it could be inferred
    pub compile_explicit: bool,
    pub compile_out: CompileOut,
    pub exec_stdin: bool,
    /// compile reads the AST from a file whose extension names ANOTHER format; the explicit
    /// --input-format must win
    pub mislead: bool,
}

pub fn all_cfgs() -> Vec<Cfg> {
    let mut v = vec![];
    for po in [ParseOut::FileExplicit, ParseOut::FileInferred, ParseOut::FileInferredUpper, ParseOut::DirExplicit, ParseOut::Stdout] {
        for ps in [false, true] {
            for (cs, ce) in [(false, false), (false, true), (true, true)] {
                for co in [CompileOut::File, CompileOut::Dir, CompileOut::Stdout] {
                    for es in [false, true] {
                        v.push(Cfg { parse_out: po, parse_stdin: ps, compile_stdin: cs, compile_explicit: ce, compile_out: co, exec_stdin: es, mislead: false });
                        if !cs && ce && po == ParseOut::Stdout {
                            v.push(Cfg { parse_out: po, parse_stdin: ps, compile_stdin: cs, compile_explicit: ce, compile_out: co, exec_stdin: es, mislead: true });
                        }
                    }
                }
            }
        }
    }
    v
}

fn deserialize(fmt: &str, text: &str) -> Result<AST, String> {
    match fmt {
        "json" => serde_json::from_str::<AST>(text).map_err(|e| e.to_string()),
        "lisp" => serde_lexpr::from_str::<AST>(text).map_err(|e| e.to_string()),
        _ => serde_yaml::from_str::<AST>(text).map_err(|e| e.to_string()),
    }
}

pub struct Baseline {
    pub src: String,
    pub run: CliOut,
    pub ast: AST,
    /// in-process image of compile(parse(src)); None: the compiler refuses the program
    pub image: Option<Vec<u8>>,
}

struct Work {
    sc: cli::Scratch,
    bin: String,
}

fn fail(kind: &str, stage: &str, fmt: &str, detail: String, case: &Value) -> Violation {
    Violation::new(kind, detail, case.clone()).with("stage", stage).with("format", fmt)
}

/// One staged pipeline under one configuration.
/// one of the spellings the command line accepts for a format name (aliases, any letter case)
fn spelling(fmt: &str, k: usize) -> String {
    let v: &[&str] = match fmt {
        "lisp" => &["lisp", "sexp", "sexpr", "LISP", "SExpr", "Sexp"],
        "json" => &["json", "JSON", "Json"],
        _ => &["yaml", "YAML", "Yaml"],
    };
    v[k % v.len()].to_string()
}

fn staged(w: &mut Work, b: &Baseline, fmt: &str, cfg: &Cfg, case: &Value) -> Result<(), Violation> {
    let herr = |e: std::io::Error| Violation::new("harness-error", format!("cannot run fml: {}", e), json!({}));
    // one directory per worker, reused for every program and configuration: artefacts are
    // overwritten again and again by shorter and longer ones, as when a user rebuilds
    let dir = w.sc.dir.join("stage");
    std::fs::create_dir_all(&dir).unwrap();
    let input = dir.join("prog.fml");
    std::fs::write(&input, &b.src).unwrap();
    let what = format!("[{} {:?}]", fmt, cfg);

    // ---------------- parse
    let mut args: Vec<String> = vec!["parse".into()];
    if !cfg.parse_stdin {
        args.push(input.to_string_lossy().into());
    }
    let ast_file: Option<PathBuf> = match cfg.parse_out {
        ParseOut::FileExplicit => {
            let f = dir.join("tree");
            args.extend(["-o".to_string(), f.to_string_lossy().into(), "--format".into(), spelling(fmt, b.src.len())]);
            Some(f)
        }
        ParseOut::FileInferred => {
            let f = dir.join(format!("tree.{}", fmt));
            args.extend(["-o".to_string(), f.to_string_lossy().into()]);
            Some(f)
        }
        ParseOut::FileInferredUpper => {
            let f = dir.join(format!("tree.{}", fmt.to_uppercase()));
            args.extend(["-o".to_string(), f.to_string_lossy().into()]);
            Some(f)
        }
        ParseOut::DirExplicit => {
            let d = dir.join("asts");
            std::fs::create_dir_all(&d).unwrap();
            args.extend(["-o".to_string(), d.to_string_lossy().into(), "--format".into(), fmt.to_uppercase()]);
            Some(d.join(if cfg.parse_stdin { format!("ast.{}", fmt) } else { format!("prog.{}", fmt) }))
        }
        ParseOut::Stdout => {
            args.extend(["--format".to_string(), spelling(fmt, b.src.len() / 3)]);
            None
        }
    };
    let a: Vec<&str> = args.iter().map(|s| s.as_str()).collect();
    let mut inv = Invocation::new(&w.bin, &a);
    if cfg.parse_stdin {
        inv = inv.stdin(b.src.as_bytes());
    }
    let po = inv.run().map_err(herr)?;
    if let Status::Signal(s) = po.status {
        return Err(fail("native-crash", "parse", fmt, format!("{} fml parse died on signal {}", what, s), case));
    }
    if !po.status.success() {
        return Err(fail(
            "stage-refuses",
            "parse",
            fmt,
            format!("{} `fml parse` refuses a program that `fml run` parses: {:?} {}", what, po.status, po.err_str().chars().take(300).collect::<String>()),
            case,
        )
        .with("reason", reason_of(&po.err_str())));
    }
    let ast_text: String = match &ast_file {
        Some(f) => match std::fs::read_to_string(f) {
            Ok(t) => t,
            Err(e) => return Err(fail("stage-output-missing", "parse", fmt, format!("{} expected AST file {} is not there: {}", what, f.display(), e), case)),
        },
        None => po.out_str(),
    };
    // the AST text reloads (same serde crate) to the parser's AST
    match deserialize(fmt, &ast_text) {
        Ok(a) => {
            if a != b.ast {
                return Err(fail("ast-differs", "parse", fmt, format!("{} the {} text reloads to a different AST than the parser produced", what, fmt), case));
            }
        }
        Err(e) => {
            // the reloading side fails: reported at the compile stage below with the binary's own words
            let _ = e;
        }
    }

    // ---------------- compile
    let mut args: Vec<String> = vec!["compile".into()];
    let compile_input: Option<PathBuf> = if cfg.compile_stdin {
        None
    } else {
        Some(match &ast_file {
            Some(f) => f.clone(),
            None => {
                // stdout of parse was captured: store it under a name with the right extension -
                // or, in the misleading configuration, under the extension of another format
                let ext = if cfg.mislead { FORMATS[(FORMATS.iter().position(|x| *x == fmt).unwrap() + 1) % 3] } else { fmt };
                let f = dir.join(format!("captured.{}", ext));
                std::fs::write(&f, &ast_text).unwrap();
                f
            }
        })
    };
    if let Some(f) = &compile_input {
        args.push(f.to_string_lossy().into());
    }
    let inferable = compile_input.as_ref().and_then(|f| f.extension()).map(|e| e.to_string_lossy().to_lowercase() == fmt).unwrap_or(false);
    if cfg.compile_explicit || !inferable {
        args.extend(["--input-format".to_string(), if cfg.exec_stdin { fmt.to_uppercase() } else { spelling(fmt, b.src.len() / 7) }]);
    }
    let bc_file: Option<PathBuf> = match cfg.compile_out {
        CompileOut::File => {
            let f = dir.join("out.bc");
            args.extend(["-o".to_string(), f.to_string_lossy().into()]);
            Some(f)
        }
        CompileOut::Dir => {
            let d = dir.join("bcs");
            std::fs::create_dir_all(&d).unwrap();
            args.extend(["-o".to_string(), d.to_string_lossy().into()]);
            let stem = match &compile_input {
                Some(f) => f.file_name().unwrap().to_string_lossy().to_string(),
                None => "ast".to_string(),
            };
            let mut p = d.join(stem);
            p.set_extension("bc");
            Some(p)
        }
        CompileOut::Stdout => None,
    };
    let a: Vec<&str> = args.iter().map(|s| s.as_str()).collect();
    let mut inv = Invocation::new(&w.bin, &a);
    if cfg.compile_stdin {
        inv = inv.stdin(ast_text.as_bytes());
    }
    let co = inv.run().map_err(herr)?;
    if let Status::Signal(s) = co.status {
        return Err(fail("native-crash", "compile", fmt, format!("{} fml compile died on signal {}", what, s), case));
    }
    match (&b.image, co.status.success()) {
        (None, false) => {
            // no image in-process either (the compiler or the serializer refuses).  That is only
            // consistent if `fml run` did not get anywhere with the program: a program that runs
            // must also have a staged form
            if b.run.status.success() || !b.run.stdout.is_empty() {
                return Err(fail(
                    "stage-refuses",
                    "compile",
                    fmt,
                    format!("{} `fml compile` refuses ({}) a program that `fml run` executes (status {:?}, {} bytes of output)", what, co.err_str().chars().take(200).collect::<String>(), b.run.status, b.run.stdout.len()),
                    case,
                )
                .with("reason", "runs-but-cannot-be-staged"));
            }
            return Ok(());
        }
        (None, true) => {
            return Err(fail("stage-accepts", "compile", fmt, format!("{} `fml compile` accepts a program that `fml run` refuses to compile", what), case));
        }
        (Some(_), false) => {
            return Err(fail(
                "stage-refuses",
                "compile",
                fmt,
                format!("{} `fml compile` refuses a program that `fml run` accepts: {:?} {}", what, co.status, co.err_str().chars().take(300).collect::<String>()),
                case,
            )
            .with("reason", reason_of(&co.err_str())));
        }
        (Some(_), true) => {}
    }
    let bytes: Vec<u8> = match &bc_file {
        Some(f) => match std::fs::read(f) {
            Ok(b) => b,
            Err(e) => return Err(fail("stage-output-missing", "compile", fmt, format!("{} expected bytecode file {} is not there: {}", what, f.display(), e), case)),
        },
        None => co.stdout.clone(),
    };
    if Some(&bytes) != b.image.as_ref() {
        return Err(fail(
            "bytes-differ",
            "compile",
            fmt,
            format!(
                "{} staged compile produced {} bytes, `run` compiles the same source to {} bytes (first difference at {:?})",
                what,
                bytes.len(),
                b.image.as_ref().map(|x| x.len()).unwrap_or(0),
                crate::props::c03::first_diff(&bytes, b.image.as_ref().unwrap())
            ),
            case,
        ));
    }

    // ---------------- execute
    let eo = if cfg.exec_stdin {
        Invocation::new(&w.bin, &["execute"]).stdin(&bytes).run().map_err(herr)?
    } else {
        let f = match &bc_file {
            Some(f) => f.clone(),
            None => {
                let f = dir.join("captured.bc");
                std::fs::write(&f, &bytes).unwrap();
                f
            }
        };
        cli::run_fml(&w.bin, &["execute", f.to_str().unwrap()]).map_err(herr)?
    };
    if let Status::Signal(s) = eo.status {
        return Err(fail("native-crash", "execute", fmt, format!("{} fml execute died on signal {}", what, s), case));
    }
    if eo.stdout != b.run.stdout || eo.status.success() != b.run.status.success() {
        return Err(fail(
            "behaviour-differs",
            "execute",
            fmt,
            format!("{} staged execution: {:?} {:?}\n`fml run`: {:?} {:?}", what, eo.status, eo.out_str().chars().take(300).collect::<String>(), b.run.status, b.run.out_str().chars().take(300).collect::<String>()),
            case,
        ));
    }
    Ok(())
}

fn reason_of(stderr: &str) -> String {
    if stderr.contains("recursion limit exceeded") {
        "recursion-limit".into()
    } else {
        "other".into()
    }
}

fn baseline(w: &mut Work, src: &str) -> Result<Option<Baseline>, Violation> {
    let f = w.sc.file("base.fml");
    std::fs::write(&f, src).unwrap();
    let run = cli::run_fml(&w.bin, &["run", f.to_str().unwrap()]).map_err(|e| Violation::new("harness-error", e.to_string(), json!({})))?;
    let ast = match fmlrun::parse(src) {
        Ok(a) => a,
        Err(_) => return Ok(None),
    };
    let image = fmlrun::compile(&ast).and_then(|p| fmlrun::serialize(&p)).ok();
    Ok(Some(Baseline { src: src.to_string(), run, ast, image }))
}

fn significant(src: &str, depth: usize) -> bool {
    depth >= 10 || src.chars().any(|c| !c.is_ascii() || (c.is_control() && c != '\n')) || src.contains("\\\\") || src.contains(": ") || src.contains(" #") || src.contains("#t") || src.contains('\'')
}

thread_local! {
    static WORK: RefCell<Option<Work>> = RefCell::new(None);
}

fn with_work<T>(f: impl FnOnce(&mut Work) -> T) -> T {
    WORK.with(|w| {
        let mut w = w.borrow_mut();
        if w.is_none() {
            *w = Some(Work { sc: cli::Scratch::new("C06", "w"), bin: cli::fml_release() });
        }
        f(w.as_mut().unwrap())
    })
}

fn serialize_ast(fmt: &str, ast: &AST) -> Option<String> {
    match fmt {
        "json" => serde_json::to_string(ast).ok(),
        "lisp" => serde_lexpr::to_string(ast).ok(),
        _ => serde_yaml::to_string(ast).ok(),
    }
}

/// `fml compile` where nothing tells it the AST format (stdin or a file without a known
/// extension, no --input-format).  The pinned tree refuses these command lines; whatever a tree
/// does, a run that exits 0 must have produced exactly the image (and nothing else on stdout),
/// a run that refuses is not judged.
fn underivable(w: &mut Work, b: &Baseline, fmt: &str, case: &Value) -> Result<u64, Violation> {
    let herr = |e: std::io::Error| Violation::new("harness-error", format!("cannot run fml: {}", e), json!({}));
    let text = match serialize_ast(fmt, &b.ast) {
        Some(t) => t,
        None => return Ok(0),
    };
    let dir = w.sc.dir.join("stage");
    std::fs::create_dir_all(&dir).unwrap();
    let plain = dir.join("tree_without_extension");
    let odd = dir.join("tree.txt");
    std::fs::write(&plain, &text).unwrap();
    std::fs::write(&odd, &text).unwrap();
    let out_file = dir.join("underivable.bc");
    let mut n = 0;
    for (iname, input) in [("stdin", None), ("file without extension", Some(&plain)), ("file.txt", Some(&odd))] {
        for to_file in [false, true] {
            let mut args: Vec<String> = vec!["compile".into()];
            if let Some(f) = input {
                args.push(f.to_string_lossy().into());
            }
            let _ = std::fs::remove_file(&out_file);
            if to_file {
                args.extend(["-o".to_string(), out_file.to_string_lossy().into()]);
            }
            let a: Vec<&str> = args.iter().map(|s| s.as_str()).collect();
            let mut inv = Invocation::new(&w.bin, &a);
            if input.is_none() {
                inv = inv.stdin(text.as_bytes());
            }
            let o = inv.run().map_err(herr)?;
            n += 1;
            let what = format!("[{} AST from {}, no --input-format, output to {}]", fmt, iname, if to_file { "-o FILE" } else { "stdout" });
            if let Status::Signal(sig) = o.status {
                return Err(fail("native-crash", "compile", fmt, format!("{} fml compile died on signal {}", what, sig), case));
            }
            if o.status.success() {
                let bytes = if to_file { std::fs::read(&out_file).unwrap_or_default() } else { o.stdout.clone() };
                let right = b.image.as_ref().map(|im| im == &bytes).unwrap_or(false) && (!to_file || o.stdout.is_empty());
                if !right {
                    return Err(fail(
                        "bytes-differ",
                        "compile",
                        fmt,
                        format!("{} `fml compile` exits 0 but its output ({} bytes{}) is not the image of the program ({:?} bytes)", what, bytes.len(), if to_file { format!(", plus {} bytes on stdout", o.stdout.len()) } else { String::new() }, b.image.as_ref().map(|i| i.len())),
                        case,
                    )
                    .with("config", "underivable-input-format"));
                }
            }
            // a refusal is not judged: the property speaks about stages that produce something
        }
    }
    Ok(n)
}

fn judge_source(src: &str, depth: usize, cfgs: &[(usize, Cfg)], ctx: &mut Ctx, case: &Value) -> Judged {
    ctx.eval();
    let res = with_work(|w| -> Result<bool, Violation> {
        let b = match baseline(w, src)? {
            Some(b) => b,
            None => return Ok(false),
        };
        if let Status::Signal(s) = b.run.status {
            return Err(Violation::new("native-crash", format!("fml run died on signal {}", s), case.clone()).with("stage", "run"));
        }
        for (fi, cfg) in cfgs {
            staged(w, &b, FORMATS[*fi], cfg, case)?;
        }
        // every fourth program (by source length) also through the command lines that give
        // `fml compile` no format at all
        if src.len() % 4 == 0 {
            let fi = (src.len() / 4) % 3;
            underivable(w, &b, FORMATS[fi], case)?;
            underivable(w, &b, "json", case)?;
        }
        Ok(true)
    });
    match res {
        Err(v) => ctx.settle(v),
        Ok(false) => {
            ctx.exclude("does-not-parse");
            Ok(())
        }
        Ok(true) => {
            ctx.label_n("staged-pipelines", cfgs.len() as u64);
            if significant(src, depth) {
                ctx.nontrivial(src.as_bytes());
            }
            Ok(())
        }
    }
}

// ------------------------------------------------------------------ depth ladder

fn ladder_source(kind: &str, n: usize) -> String {
    let rep = |a: &str, mid: &str, b: &str| -> String { format!("{}{}{}", a.repeat(n), mid, b.repeat(n)) };
    match kind {
        "blocks" => format!("print(\"~\\n\", {})", rep("begin ", "1", " end")),
        "operators" => format!("print(\"~\\n\", {})", rep("(1 + ", "0", ")")),
        "calls" => format!("function id(x) -> x; print(\"~\\n\", {})", rep("id(", "7", ")")),
        "arrays" => format!("let a = {}; print(\"ok\\n\")", rep("array(1, ", "0", ")")),
        _ => format!("print(\"~\\n\", {})", rep("if true then ", "3", " else 4")),
    }
}

fn long_text_programs() -> Vec<(String, String)> {
    let mut out = vec![];
    for tail in [1023usize, 1024, 1500, 5000, 9000, 70_000] {
        let t: String = (0..tail).map(|i| (b'a' + (i % 26) as u8) as char).collect();
        out.push((format!("newline-then-{}-characters", tail), format!("print(\"head\\n\"); print(\"first line\n{}\")", t)));
        out.push((format!("{}-characters-then-newline", tail), format!("print(\"{}\n\"); print(\"tail\\n\")", t)));
        let u: String = (0..tail / 2).map(|i| ['ž', 'é', '日', 'a'][i % 4]).collect();
        out.push((format!("newline-then-{}-non-ascii-characters", tail / 2), format!("print(\"x\n{}\\n\")", u)));
    }
    // degenerate programs: nothing at all, only definitions (an entry method without a single
    // instruction), a definition last, a lone literal, only layout
    for (name, src) in [
        ("empty-source", ""),
        ("only-blanks-and-comments", "  \n// nothing\n/* at all */\n"),
        ("functions-only", "function inc(x) -> x + 1; function greet() -> print(\"hello\\n\")"),
        ("one-function-only", "function f() -> 1"),
        ("function-definition-last", "print(\"first\\n\"); function late() -> 2"),
        ("call-before-definition-last", "print(\"~\\n\", late()); function late() -> 2"),
        ("lone-literal", "42"),
        ("lone-null", "null"),
        ("lone-empty-block", "begin end"),
        ("lone-object", "object begin end"),
        ("trailing-semicolon", "print(\"x\\n\");"),
    ] {
        out.push((name.to_string(), src.to_string()));
    }
    // many short statements: 3000 prints (the AST texts are several hundred KB)
    let many: Vec<String> = (0..3000).map(|i| format!("print(\"line ~\\n\", {})", i)).collect();
    out.push(("3000-statements".into(), many.join("; ")));
    out
}

pub const LADDER_KINDS: [&str; 5] = ["blocks", "operators", "calls", "arrays", "conditionals"];
pub const LADDER_DEPTHS: [usize; 8] = [30, 45, 60, 64, 100, 128, 200, 300];

impl Property for C06 {
    fn id(&self) -> &'static str {
        "C06"
    }
    fn rule(&self) -> String {
        "cases: programs from the typed generator with the exotic profile (format strings over raw control characters incl. NUL, DEL, C1, NBSP, BOM, U+2028, astral and combining characters, YAML/S-expression/JSON metacharacters and look-alikes such as `null ~ true yes 1e3 0x1F .inf 2001-01-01 #t #nil`; identifiers such as nil t yes no on off y n NULL True NaN inf _; extreme integers), AST depth <= 25 by construction (deeper ones counted as excluded), plus a depth ladder 30..300 x {blocks, operators, calls, arrays, conditionals}. For each program `fml run` once, then per format {json, lisp, yaml} tape-chosen configurations (quick: 2 per format; thorough: all 210 for one tape-chosen format plus 4 for each other format) of {-o file + --format, -o file.ext inferred, upper-case extension, -o dir + --format, stdout} x {file, stdin} for parse, {file inferred, file explicit, stdin explicit} x {-o file, -o dir, stdout} for compile, {file, stdin} for execute. oracle: every parse exits 0 and its text reloads in-process (same serde crate) to the parser's AST; compile succeeds exactly when run gets past compilation; bytes identical across formats/configurations and identical to compile(parse(src)) in-process; execute gives the same stdout and zero/non-zero status as run. non-trivial: the source contains a non-ASCII or control character or a format metacharacter, or nesting >= 10; distinct by source".into()
    }
    fn assumptions(&self) -> Vec<String> {
        vec![
            "known finding F6: the AST interchange crates refuse deeply nested ASTs (recursion limit); the main campaign stays below depth 25 and the ladder reports the finding per format".into(),
        ]
    }
    fn random_cases(&self, tier: Tier) -> u64 {
        tier.pick(1_600, 2_500)
    }
    fn max_shrink_iters(&self) -> u32 {
        40
    }
    fn fixed_parts(&self, ctx: &mut Ctx) -> Vec<Violation> {
        let mut out = vec![];
        let cfgs = all_cfgs();
        let mut k = 0;
        for kind in LADDER_KINDS.iter() {
            for d in LADDER_DEPTHS.iter() {
                k += 1;
                if !ctx.shard_mine(k) {
                    continue;
                }
                let src = ladder_source(kind, *d);
                ctx.label("depth-ladder-program");
                // each format separately, so that one format's known limit does not hide another format
                for fi in 0..3 {
                    let cfg = cfgs[(k * 7 + fi * 13) % cfgs.len()];
                    let case = json!({"ladder": kind, "depth": d, "format": FORMATS[fi], "source_prefix": src.chars().take(120).collect::<String>()});
                    if let Err(mut v) = judge_source(&src, *d, &[(fi, cfg)], ctx, &case) {
                        v.detail = format!("[ladder {} depth {}] {}", kind, d, v.detail);
                        out.push(v);
                    }
                }
            }
        }
        // strings and programs longer than the buffers between the stages (1 KiB line buffer of a
        // piped stdout, 8 KiB file buffers): a line break followed by a long tail, long lines, a
        // long program; every stage once through a pipe and once through files
        for (i, (name, src)) in long_text_programs().into_iter().enumerate() {
            if !ctx.shard_mine(i + 3) {
                continue;
            }
            ctx.label("long-text-program");
            for fi in 0..3 {
                let piped = Cfg { parse_out: ParseOut::Stdout, parse_stdin: true, compile_stdin: true, compile_explicit: true, compile_out: CompileOut::Stdout, exec_stdin: true, mislead: false };
                let filed = Cfg { parse_out: ParseOut::FileInferred, parse_stdin: false, compile_stdin: false, compile_explicit: false, compile_out: CompileOut::File, exec_stdin: false, mislead: false };
                let case = json!({"long_text_program": name, "format": FORMATS[fi], "source_prefix": src.chars().take(120).collect::<String>(), "source_len": src.len()});
                if let Err(mut v) = judge_source(&src, 1, &[(fi, piped), (fi, filed)], ctx, &case) {
                    v.detail = format!("[long text program {}] {}", name, v.detail);
                    out.push(v);
                }
            }
        }
        // the repository's wrapper script with PARSER/COMPILER/INTERPRETER (thorough)
        if ctx.tier == Tier::Thorough && ctx.index == 0 {
            out.extend(wrapper_script(ctx));
        }
        out
    }
    fn judge_tape(&self, tape: &[u8], ctx: &mut Ctx) -> Judged {
        let mut t = Tape::new(tape);
        let g = generate(&mut t, &Profile::exotic());
        let depth = g.prog.iter().map(|e| e.depth()).max().unwrap_or(0);
        if depth > 25 {
            ctx.exclude("ast-depth>25(known finding F6 territory)");
            return Ok(());
        }
        // the real binary has no fuel: only programs the reference interpreter finishes within its
        // fuel reach it (nested calls inside loops can take astronomically long)
        if crate::refsem::run(&g.prog, crate::refsem::DEFAULT_FUEL).outcome == crate::refsem::Outcome::Fuel {
            ctx.exclude("reference-fuel");
            return Ok(());
        }
        let src = render::text(&g.prog, render::Style::Minimal);
        let all = all_cfgs();
        let mut cfgs: Vec<(usize, Cfg)> = vec![];
        if ctx.tier == Tier::Thorough {
            // all configurations for one tape-chosen format, a few for the other two
            let full = t.pick(3);
            for fi in 0..3 {
                if fi == full {
                    for c in &all {
                        cfgs.push((fi, *c));
                    }
                } else {
                    for _ in 0..4 {
                        cfgs.push((fi, all[t.pick(all.len())]));
                    }
                }
            }
        } else if false {
            for fi in 0..3 {
                for c in &all {
                    cfgs.push((fi, *c));
                }
            }
        } else {
            for fi in 0..3 {
                for _ in 0..2 {
                    cfgs.push((fi, all[t.pick(all.len())]));
                }
            }
        }
        let case = json!({"tape": hex(tape), "source": render::pretty(&g.prog)});
        let r = judge_source(&src, depth, &cfgs, ctx, &case);
        if r.is_ok() {
            ctx.sample(src.len(), || json!({"source": render::pretty(&g.prog), "ast_depth": depth}));
        }
        r
    }
    fn replay(&self, case: &Value, ctx: &mut Ctx) -> Judged {
        if let (Some(kind), Some(d)) = (case["ladder"].as_str(), case["depth"].as_u64()) {
            let src = ladder_source(kind, d as usize);
            let cfgs = all_cfgs();
            let v: Vec<(usize, Cfg)> = (0..3).map(|fi| (fi, cfgs[fi * 11])).collect();
            for x in v {
                judge_source(&src, d as usize, &[x], ctx, case)?;
            }
            return Ok(());
        }
        if let Some(t) = case["tape"].as_str() {
            if let Some(bytes) = crate::tape::unhex(t) {
                let mut tp = Tape::new(&bytes);
                let g = generate(&mut tp, &Profile::exotic());
                let src = render::text(&g.prog, render::Style::Minimal);
                let all = all_cfgs();
                let mut cfgs = vec![];
                for fi in 0..3 {
                    for c in &all {
                        cfgs.push((fi, *c));
                    }
                }
                return judge_source(&src, 0, &cfgs, ctx, case);
            }
        }
        if let Some(src) = case["source"].as_str() {
            let all = all_cfgs();
            let mut cfgs = vec![];
            for fi in 0..3 {
                for c in &all {
                    cfgs.push((fi, *c));
                }
            }
            return judge_source(src, 0, &cfgs, ctx, case);
        }
        Err(Violation::new("harness-error", "unusable replay case", case.clone()))
    }
}

/// `./fml run FILE` of the repository's wrapper script with the three tool variables set.
fn wrapper_script(ctx: &mut Ctx) -> Vec<Violation> {
    let mut out = vec![];
    let script = format!("{}/fml", crate::FML_ROOT);
    if !std::path::Path::new(&script).exists() {
        ctx.exclude("wrapper-script-missing");
        return out;
    }
    let bin = cli::fml_release();
    let mut sc = cli::Scratch::new("C06", "wrapper");
    for (i, f) in crate::tools::repo_fml_files(crate::FML_ROOT).iter().enumerate() {
        if i % 3 != 0 {
            continue;
        }
        let src = match std::fs::read_to_string(f) {
            Ok(s) => s,
            Err(_) => continue,
        };
        let local = sc.file("w.fml");
        std::fs::write(&local, &src).unwrap();
        let direct = match cli::run_fml(&bin, &["run", local.to_str().unwrap()]) {
            Ok(o) => o,
            Err(_) => continue,
        };
        let o = Invocation::new("bash", &[&script, "run", local.to_str().unwrap()])
            .env("PARSER", &bin)
            .env("COMPILER", &bin)
            .env("INTERPRETER", &bin)
            .cwd(&sc.dir)
            .run();
        ctx.eval();
        ctx.label("wrapper-script");
        match o {
            Ok(o) => {
                let refused = o.err_str().contains("recursion limit exceeded");
                if refused {
                    ctx.exclude("wrapper-script:ast-too-deep(F6)");
                    continue;
                }
                if o.stdout != direct.stdout {
                    out.push(
                        Violation::new(
                            "behaviour-differs",
                            format!("wrapper script `fml run {}` prints {:?}, the binary prints {:?}", f.display(), o.out_str().chars().take(200).collect::<String>(), direct.out_str().chars().take(200).collect::<String>()),
                            json!({"file": f.to_string_lossy()}),
                        )
                        .with("stage", "wrapper"),
                    );
                }
            }
            Err(e) => out.push(Violation::new("harness-error", format!("cannot run wrapper script: {}", e), json!({}))),
        }
    }
    out
}
