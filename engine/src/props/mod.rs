pub mod c01;

use crate::harness::Property;

pub fn all() -> Vec<Box<dyn Property>> {
    vec![Box::new(c01::C01)]
}

pub fn by_id(id: &str) -> Option<Box<dyn Property>> {
    all().into_iter().find(|p| p.id() == id)
}
