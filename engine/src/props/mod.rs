pub mod c01;
pub mod c02;

use crate::harness::Property;

pub fn all() -> Vec<Box<dyn Property>> {
    vec![Box::new(c01::C01), Box::new(c02::C02)]
}

pub fn by_id(id: &str) -> Option<Box<dyn Property>> {
    all().into_iter().find(|p| p.id() == id)
}
