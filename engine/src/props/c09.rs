//! C09 — built-in integer/boolean/null operations: total, 32-bit, build-independent.

use crate::cli;
use crate::fmlrun::{self, Exec};
use crate::harness::*;
use crate::refsem::{builtin, V};
use crate::tape::{hex, Tape};
use serde_json::{json, Value};

pub struct C09;

pub const BOUNDARY: [i32; 16] =
    [i32::MIN, i32::MIN + 1, -65536, -46341, -256, -3, -2, -1, 0, 1, 2, 3, 46341, 65536, i32::MAX - 1, i32::MAX];
pub const INT_OPS: [&str; 11] = ["+", "-", "*", "/", "%", "<", "<=", ">", ">=", "==", "!="];
pub const ALL_OPS: [&str; 13] = ["+", "-", "*", "/", "%", "<", "<=", ">", ">=", "==", "!=", "&", "|"];

#[derive(Clone, Copy, Debug, PartialEq)]
pub enum Opd {
    Int(i32),
    Bool(bool),
    Null,
    Array,
    Object,
}

impl Opd {
    pub fn src(&self) -> String {
        match self {
            Opd::Int(i) => i.to_string(),
            Opd::Bool(b) => b.to_string(),
            Opd::Null => "null".into(),
            Opd::Array => "array(1,0)".into(),
            Opd::Object => "(object begin end)".into(),
        }
    }
    fn v(&self) -> Option<V> {
        match self {
            Opd::Int(i) => Some(V::Int(*i)),
            Opd::Bool(b) => Some(V::Bool(*b)),
            Opd::Null => Some(V::Null),
            _ => None,
        }
    }
}

#[derive(Clone, Debug)]
pub struct Row {
    pub a: Opd,
    pub op: &'static str,
    pub b: Opd,
    /// Some(name): spelled as an explicit call of the Feeny-named built-in, `a.name(b)`
    pub feeny: Option<&'static str>,
}

pub fn feeny_name(op: &str) -> &'static str {
    match op {
        "+" => "add",
        "-" => "sub",
        "*" => "mul",
        "/" => "div",
        "%" => "mod",
        "<" => "lt",
        "<=" => "le",
        ">" => "gt",
        ">=" => "ge",
        "==" => "eq",
        "!=" => "neq",
        "&" => "and",
        _ => "or",
    }
}

#[derive(Clone, Debug, PartialEq)]
pub enum Want {
    Prints(String),
    Fails,
    /// MIN % -1: the statement lists only MIN / -1 as failing; 0 or failure accepted
    ZeroOrFails,
}

impl Row {
    pub fn src(&self) -> String {
        match self.feeny {
            Some(n) => format!("print(\"~\\n\", {}.{}({}))", self.a.src(), n, self.b.src()),
            None => format!("print(\"~\\n\", {} {} {})", self.a.src(), self.op, self.b.src()),
        }
    }
    /// The operation alone, as an expression.
    pub fn expr(&self) -> String {
        match self.feeny {
            Some(n) => format!("{}.{}({})", self.a.src(), n, self.b.src()),
            None => format!("{} {} {}", self.a.src(), self.op, self.b.src()),
        }
    }
    /// The same operation in places where its value is not printed directly: discarded as a
    /// statement (top level, function body, loop body), bound by a let, passed as an argument,
    /// stored in a field. `true` = the value is printed afterwards, `false` = only "after" is.
    pub fn contexts(&self) -> Vec<(&'static str, String, bool)> {
        let e = self.expr();
        vec![
            ("discarded-statement", format!("{}; print(\"after\\n\")", e), false),
            ("discarded-in-function", format!("function f() -> begin {}; 0 end; f(); print(\"after\\n\")", e), false),
            ("discarded-loop-body", format!("let i = 0; while i < 2 do begin {}; i <- i + 1 end; print(\"after\\n\")", e), false),
            ("let-bound", format!("let r = {}; print(\"~\\n\", r)", e), true),
            ("argument", format!("function g(v) -> v; print(\"~\\n\", g({}))", e), true),
            ("field", format!("let o = object begin let f = {} end; print(\"~\\n\", o.f)", e), true),
        ]
    }
    pub fn want(&self) -> Want {
        if let (Opd::Int(i32::MIN), "%", Opd::Int(-1)) = (self.a, self.op, self.b) {
            return Want::ZeroOrFails;
        }
        // an array or an object without such a member understands none of the operators
        let recv = match self.a.v() {
            Some(v) => v,
            None => return Want::Fails,
        };
        // array/object arguments: only == / != are defined (different kinds are unequal)
        let arg = match self.b.v() {
            Some(v) => v,
            None => V::Ref(0),
        };
        match builtin(recv, self.op, &[arg]) {
            Ok(V::Int(i)) => Want::Prints(format!("{}\n", i)),
            Ok(V::Bool(b)) => Want::Prints(format!("{}\n", b)),
            Ok(V::Null) => Want::Prints("null\n".into()),
            Ok(V::Ref(_)) => Want::Fails,
            Err(_) => Want::Fails,
        }
    }
    fn nontrivial(&self) -> bool {
        match (self.a, self.b) {
            (Opd::Int(a), Opd::Int(b)) => {
                let (x, y) = (a as i64, b as i64);
                let exact = match self.op {
                    "+" => Some(x + y),
                    "-" => Some(x - y),
                    "*" => Some(x * y),
                    _ => None,
                };
                let overflow = exact.map(|e| e > i32::MAX as i64 || e < i32::MIN as i64).unwrap_or(false);
                overflow || ((self.op == "/" || self.op == "%") && (a < 0 || b < 0 || b == 0))
            }
            (a, b) => std::mem::discriminant(&a) != std::mem::discriminant(&b),
        }
    }
    fn id(&self) -> String {
        format!("{:?} {} {:?}", self.a, self.feeny.unwrap_or(self.op), self.b)
    }
}

pub fn table() -> Vec<Row> {
    let mut rows = vec![];
    for a in BOUNDARY.iter() {
        for b in BOUNDARY.iter() {
            for op in INT_OPS.iter() {
                rows.push(Row { a: Opd::Int(*a), op, b: Opd::Int(*b), feeny: None });
                rows.push(Row { a: Opd::Int(*a), op, b: Opd::Int(*b), feeny: Some(feeny_name(op)) });
            }
        }
    }
    for a in &[true, false] {
        for b in &[true, false] {
            for op in &["&", "|", "==", "!="] {
                rows.push(Row { a: Opd::Bool(*a), op, b: Opd::Bool(*b), feeny: None });
                rows.push(Row { a: Opd::Bool(*a), op, b: Opd::Bool(*b), feeny: Some(feeny_name(op)) });
            }
        }
    }
    for op in &["==", "!="] {
        rows.push(Row { a: Opd::Null, op, b: Opd::Null, feeny: None });
        rows.push(Row { a: Opd::Null, op, b: Opd::Null, feeny: Some(feeny_name(op)) });
    }
    // every cross-kind pair (and the same-kind pairs with operators of the other kind)
    let recvs = [Opd::Int(5), Opd::Int(0), Opd::Bool(true), Opd::Bool(false), Opd::Null, Opd::Array, Opd::Object];
    let args = [Opd::Int(5), Opd::Int(0), Opd::Bool(true), Opd::Bool(false), Opd::Null, Opd::Array, Opd::Object];
    for a in recvs.iter() {
        for b in args.iter() {
            for op in ALL_OPS.iter() {
                rows.push(Row { a: *a, op, b: *b, feeny: None });
                rows.push(Row { a: *a, op, b: *b, feeny: Some(feeny_name(op)) });
            }
        }
    }
    rows
}

fn judge_in_process(row: &Row, ctx: &mut Ctx, tag: &str) -> Judged {
    ctx.eval();
    let src = row.src();
    let want = row.want();
    let case = || json!({"row": row.id(), "source": src, "where": format!("in-process engine ({} profile)", tag)});
    let pipe = match fmlrun::pipeline(&src) {
        Ok(p) => p,
        Err(e) => return ctx.settle(Violation::new("source-rejected", format!("{:?}", e), case())),
    };
    let r = fmlrun::run_stepped(&pipe.loaded, 10_000);
    let ok = match (&want, &r.exec) {
        (Want::Prints(s), Exec::Ok) => &r.out == s,
        (Want::Fails, Exec::Fail(_)) => r.out.is_empty(),
        (Want::ZeroOrFails, Exec::Ok) => r.out == "0\n",
        (Want::ZeroOrFails, Exec::Fail(_)) => r.out.is_empty(),
        _ => false,
    };
    if !ok {
        return ctx.settle(
            Violation::new("wrong-builtin-result", format!("{} [{} profile]: expected {:?}, got {:?} output {:?}", row.id(), tag, want, r.exec, r.out), case())
                .with("profile", tag)
                .with("op", row.op),
        );
    }
    if row.nontrivial() {
        ctx.nontrivial(row.id().as_bytes());
    }
    ctx.sample(src.len(), || json!({"source": src, "expected": format!("{:?}", want), "profile": tag}));
    Ok(())
}

/// The operation of `row` in another place of a program (see `Row::contexts`): what it yields, and
/// whether it fails, does not depend on what is done with the value.
fn judge_context_src(src: &str, want: &Want, printed: bool, ctx: &mut Ctx, tag: &str, id: &str) -> Judged {
    ctx.eval();
    let want_s = format!("{:?}", want);
    let case = || json!({"context_source": src, "want": want_s, "printed": printed, "row": id, "where": format!("in-process engine ({} profile)", tag)});
    let pipe = match fmlrun::pipeline(src) {
        Ok(p) => p,
        Err(e) => return ctx.settle(Violation::new("source-rejected", format!("{:?}", e), case())),
    };
    let r = fmlrun::run_stepped(&pipe.loaded, 10_000);
    let good_out = |s: &str| if printed { r.out == s } else { r.out == "after\n" };
    let ok = match (want, &r.exec) {
        (Want::Prints(s), Exec::Ok) => good_out(s),
        (Want::Fails, Exec::Fail(_)) => r.out.is_empty(),
        (Want::ZeroOrFails, Exec::Ok) => good_out("0\n"),
        (Want::ZeroOrFails, Exec::Fail(_)) => r.out.is_empty(),
        _ => false,
    };
    if !ok {
        return ctx.settle(
            Violation::new("wrong-builtin-result", format!("{} in `{}` [{} profile]: expected {:?}{}, got {:?} output {:?}", id, src, tag, want, if printed { "" } else { " (value unused: a success prints only `after`)" }, r.exec, r.out), case())
                .with("profile", tag)
                .with("op", "context"),
        );
    }
    ctx.nontrivial(src.as_bytes());
    Ok(())
}

/// Non-failing rows batched into one program per binary; a mismatching batch is re-run row by row.
fn judge_cli_batch(rows: &[Row], ctx: &mut Ctx, sc: &mut cli::Scratch) -> Vec<Violation> {
    let mut out = vec![];
    let bins = [("debug", cli::fml_debug()), ("release", cli::fml_release())];
    let printing: Vec<&Row> = rows.iter().filter(|r| matches!(r.want(), Want::Prints(_))).collect();
    let other: Vec<&Row> = rows.iter().filter(|r| !matches!(r.want(), Want::Prints(_))).collect();
    for chunk in printing.chunks(100) {
        let src: String = chunk.iter().map(|r| r.src()).collect::<Vec<_>>().join(";\n");
        let want: String = chunk.iter().map(|r| if let Want::Prints(s) = r.want() { s } else { String::new() }).collect();
        let f = sc.file("batch.fml");
        std::fs::write(&f, &src).unwrap();
        for (tag, bin) in bins.iter() {
            ctx.eval();
            ctx.label(&format!("cli-batch:{}", tag));
            match cli::run_fml(bin, &["run", f.to_str().unwrap()]) {
                Err(e) => {
                    out.push(Violation::new("harness-error", format!("cannot run {}: {}", bin, e), json!({})));
                    return out;
                }
                Ok(o) => {
                    if o.status.success() && o.out_str() == want {
                        continue;
                    }
                    // locate the rows
                    for r in chunk {
                        if let Some(v) = cli_single(r, tag, bin, ctx, sc) {
                            out.push(v);
                            if out.len() > 8 {
                                return out;
                            }
                        }
                    }
                }
            }
        }
    }
    for r in other {
        let mut seen: Vec<(String, String)> = vec![];
        for (tag, bin) in bins.iter() {
            if let Some(v) = cli_single(r, tag, bin, ctx, sc) {
                out.push(v);
            }
            if r.want() == Want::ZeroOrFails {
                let f = sc.file("single.fml");
                std::fs::write(&f, r.src()).unwrap();
                if let Ok(o) = cli::run_fml(bin, &["run", f.to_str().unwrap()]) {
                    seen.push((o.status.class().to_string(), o.out_str()));
                }
            }
        }
        if seen.len() == 2 && seen[0] != seen[1] {
            out.push(
                Violation::new(
                    "builds-disagree",
                    format!("{}: debug build {:?}, release build {:?}", r.id(), seen[0], seen[1]),
                    json!({"row": r.id(), "source": r.src()}),
                )
                .with("op", r.op),
            );
        }
    }
    out
}

fn cli_single(r: &Row, tag: &str, bin: &str, ctx: &mut Ctx, sc: &mut cli::Scratch) -> Option<Violation> {
    ctx.eval();
    ctx.label(&format!("cli-single:{}", tag));
    let f = sc.file("single.fml");
    std::fs::write(&f, r.src()).unwrap();
    let o = match cli::run_fml(bin, &["run", f.to_str().unwrap()]) {
        Ok(o) => o,
        Err(e) => return Some(Violation::new("harness-error", format!("cannot run {}: {}", bin, e), json!({}))),
    };
    let want = r.want();
    let ok = match (&want, &o.status) {
        (Want::Prints(s), cli::Status::Exit(0)) => &o.out_str() == s,
        (Want::Fails, cli::Status::Exit(c)) if *c != 0 => o.stdout.is_empty(),
        (Want::ZeroOrFails, cli::Status::Exit(0)) => o.out_str() == "0\n",
        (Want::ZeroOrFails, cli::Status::Exit(_)) => o.stdout.is_empty(),
        _ => false,
    };
    if ok {
        if r.nontrivial() {
            ctx.nontrivial(format!("cli|{}", r.id()).as_bytes());
        }
        return None;
    }
    let v = Violation::new(
        "wrong-builtin-result",
        format!("{} [{} binary]: expected {:?}, got {:?} stdout {:?} stderr {:?}", r.id(), tag, want, o.status, o.out_str(), o.err_str().chars().take(200).collect::<String>()),
        json!({"row": r.id(), "source": r.src(), "where": format!("fml {} binary", tag)}),
    )
    .with("profile", tag)
    .with("op", r.op);
    match ctx.settle(v) {
        Ok(()) => None,
        Err(v) => Some(v),
    }
}

/// Explicit calls of the built-ins with the wrong number of arguments (0, 2, 3): only the
/// method-call spelling can express them (an infix operator always has one argument); every one
/// must fail the program, whatever the surplus arguments are.
pub fn arity_sources() -> Vec<String> {
    let mut out = vec![];
    let recvs = [Opd::Int(5), Opd::Int(0), Opd::Int(i32::MIN), Opd::Bool(true), Opd::Bool(false), Opd::Null];
    for a in recvs.iter() {
        // an argument of the receiver's own kind, so that one argument alone would be fine
        let b = match a {
            Opd::Int(_) => ["7", "0"],
            Opd::Bool(_) => ["true", "false"],
            _ => ["null", "null"],
        };
        for op in ALL_OPS.iter() {
            for name in [op.to_string(), feeny_name(op).to_string()] {
                for args in [String::new(), format!("{}, {}", b[0], b[1]), format!("{}, {}", b[1], b[0]), format!("{}, {}, {}", b[0], b[0], b[0])] {
                    out.push(format!("print(\"~\\n\", {}.{}({}))", a.src(), name, args));
                }
            }
        }
    }
    out
}

/// `src` must fail without printing anything: in this engine and in both binaries.
fn judge_must_fail(src: &str, ctx: &mut Ctx, tag: &str, sc: Option<&mut cli::Scratch>) -> Judged {
    ctx.eval();
    let case = || json!({"must_fail": true, "source": src, "where": format!("in-process engine ({} profile)", tag)});
    let pipe = match fmlrun::pipeline(src) {
        Ok(p) => p,
        Err(e) => return ctx.settle(Violation::new("source-rejected", format!("{:?}", e), case())),
    };
    let r = fmlrun::run_stepped(&pipe.loaded, 10_000);
    if !matches!(r.exec, Exec::Fail(_)) || !r.out.is_empty() {
        return ctx.settle(Violation::new("wrong-builtin-result", format!("`{}` [{} profile]: expected a failure without output, got {:?} output {:?}", src, tag, r.exec, r.out), case()).with("profile", tag).with("op", "arity"));
    }
    if let Some(sc) = sc {
        let f = sc.file("arity.fml");
        std::fs::write(&f, src).unwrap();
        let log = sc.file("arity.csv");
        let rel = cli::fml_release();
        // the third run has --heap-log switched on: a failing operation fails under every flag
        for (btag, bin, with_log) in [("debug", cli::fml_debug(), false), ("release", rel.clone(), false), ("release with --heap-log", rel.clone(), true)].iter() {
            let mut args = vec!["run", f.to_str().unwrap()];
            if *with_log {
                args.extend(["--heap-log", log.to_str().unwrap()]);
            }
            let o = cli::run_fml(bin, &args).map_err(|e| Violation::new("harness-error", e.to_string(), json!({})))?;
            if o.status.success() || matches!(o.status, cli::Status::Signal(_)) || !o.stdout.is_empty() {
                return ctx.settle(
                    Violation::new("wrong-builtin-result", format!("`{}` [{} binary]: expected a failure without output, got {:?} stdout {:?}", src, btag, o.status, o.out_str()), json!({"must_fail": true, "source": src, "where": format!("{} binary", btag)}))
                        .with("profile", *btag)
                        .with("op", "arity"),
                );
            }
        }
    }
    ctx.nontrivial(src.as_bytes());
    Ok(())
}

fn random_row(t: &mut Tape) -> Row {
    let a = t.i32_edge();
    let b = match t.pick(4) {
        0 => [0, 1, -1, 2][t.pick(4)],
        1 => a,
        _ => t.i32_edge(),
    };
    {
        let op = INT_OPS[t.pick(INT_OPS.len())];
        Row { a: Opd::Int(a), op, b: Opd::Int(b), feeny: if t.chance(64) { Some(feeny_name(op)) } else { None } }
    }
}

impl Property for C09 {
    fn id(&self) -> &'static str {
        "C09"
    }
    fn rule(&self) -> String {
        "cases: (exhaustive) the 16-value boundary set squared x 11 integer operators, all boolean tables, null ==/!=, every receiver {int,bool,null,array,object without members} x argument {int,bool,null,array,object} x 13 operators; every receiver x 13 operators x both spellings called explicitly with 0, 2 and 3 arguments (must fail without output); (random) 32-bit operand pairs biased to overflow and sign edges. Each row is `print(\"~\\n\", a op b)` executed in-process in BOTH engine profiles (dev = overflow checks on, release) and, for the tables and a sample of the random rows, through the real debug AND release binaries (non-failing rows batched 100 per program, failing rows one per process). oracle: own specification over i64 (wrap modulo 2^32, truncating division, remainder with the dividend's sign, zero divisor and MIN / -1 fail, ==/!= total on primitives, strict & and |, everything else fails); MIN % -1 may print 0 or fail but must do the same in both builds. non-trivial: exact result outside i32, or a negative operand or zero divisor of / or %, or a cross-kind pair; distinct by (op, a, b) (in-process and CLI observations are counted separately) Every table row and every random row is judged again with the operation in places where its value is not printed directly (discarded as a statement at the top level, in a function body and in a loop body; bound by a let; passed as an argument; stored in a field): it yields the same value, and a failing one fails there too, without output.".into()
    }
    fn assumptions(&self) -> Vec<String> {
        vec!["MIN % -1 is not listed by the statement: 0 or failure accepted, identical across builds".into()]
    }
    fn both_profiles(&self) -> bool {
        true
    }
    fn random_cases(&self, tier: Tier) -> u64 {
        tier.pick(200_000, 4_000_000)
    }
    fn max_tape(&self) -> usize {
        24
    }
    fn exhaustive_note(&self, _tier: Tier) -> Option<String> {
        Some(format!("{} table rows (boundary set squared x 11 operators, boolean/null tables, cross-kind pairs), all executed in 4 configurations; random pairs not exhaustive", table().len()))
    }
    fn fixed_parts(&self, ctx: &mut Ctx) -> Vec<Violation> {
        let tag = if cfg!(debug_assertions) { "dev" } else { "release" };
        let mut out = vec![];
        let rows = table();
        let mine: Vec<Row> = rows.iter().enumerate().filter(|(i, _)| ctx.shard_mine(*i)).map(|(_, r)| r.clone()).collect();
        for r in &mine {
            ctx.label(&format!("table-row:{}", tag));
            if let Err(v) = judge_in_process(r, ctx, tag) {
                out.push(v);
                if out.len() > 8 {
                    return out;
                }
            }
        }
        // every row again with its value unused, bound, passed on and stored
        for r in &mine {
            let want = r.want();
            for (name, src, printed) in r.contexts() {
                ctx.label(&format!("context-row:{}:{}", name, tag));
                if let Err(v) = judge_context_src(&src, &want, printed, ctx, tag, &r.id()) {
                    out.push(v);
                    if out.len() > 8 {
                        return out;
                    }
                }
            }
        }
        // wrong argument counts: in both engine profiles, and (release workers) both binaries
        {
            let mut sc = if tag == "release" { Some(cli::Scratch::new("C09", "arity")) } else { None };
            for (i, src) in arity_sources().iter().enumerate() {
                if !ctx.shard_mine(i) {
                    continue;
                }
                ctx.label(&format!("arity-row:{}", tag));
                if let Err(v) = judge_must_fail(src, ctx, tag, sc.as_mut()) {
                    out.push(v);
                    if out.len() > 8 {
                        return out;
                    }
                }
            }
        }
        // the real binaries: driven by the release workers only
        if tag == "release" {
            let mut sc = cli::Scratch::new("C09", "w");
            out.extend(judge_cli_batch(&mine, ctx, &mut sc));
            // a sample of random rows through the binaries as well
            let n = ctx.tier.pick(300, 3000);
            let mut rnd = vec![];
            for k in 0..n {
                let tape = crate::tools::random_tape(crate::tape::mix(ctx.seed ^ (ctx.index as u64 * 7919 + k as u64)), 16);
                let mut t = Tape::new(&tape);
                rnd.push(random_row(&mut t));
            }
            out.extend(judge_cli_batch(&rnd, ctx, &mut sc));
        }
        out
    }
    fn judge_tape(&self, tape: &[u8], ctx: &mut Ctx) -> Judged {
        let tag = if cfg!(debug_assertions) { "dev" } else { "release" };
        let mut t = Tape::new(tape);
        let row = random_row(&mut t);
        ctx.label(&format!("random-row:{}", tag));
        let _ = hex(tape);
        judge_in_process(&row, ctx, tag)?;
        // and in one of the places where the value is not printed directly
        let cs = row.contexts();
        let (name, src, printed) = &cs[t.byte() as usize % cs.len()];
        ctx.label(&format!("random-context-row:{}:{}", name, tag));
        judge_context_src(src, &row.want(), *printed, ctx, tag, &row.id())
    }
    fn replay(&self, case: &Value, ctx: &mut Ctx) -> Judged {
        if case["must_fail"].as_bool() == Some(true) {
            let src = case["source"].as_str().unwrap_or("");
            let mut sc = cli::Scratch::new("C09", "replay");
            return judge_must_fail(src, ctx, if cfg!(debug_assertions) { "dev" } else { "release" }, Some(&mut sc));
        }
        if let Some(src) = case["context_source"].as_str() {
            let row = case["row"].as_str().unwrap_or("");
            let printed = case["printed"].as_bool().unwrap_or(false);
            let w = case["want"].as_str().unwrap_or("");
            let want = if w == "Fails" {
                Want::Fails
            } else if w == "ZeroOrFails" {
                Want::ZeroOrFails
            } else {
                // Prints("...") as written by {:?}: the text is a JSON-compatible string literal here
                let inner = w.trim_start_matches("Prints(").trim_end_matches(')');
                Want::Prints(serde_json::from_str::<String>(inner).unwrap_or_default())
            };
            return judge_context_src(src, &want, printed, ctx, if cfg!(debug_assertions) { "dev" } else { "release" }, row);
        }
        if let Some(src) = case["source"].as_str() {
            // re-judge the row from its source text in this engine and through both binaries
            let row = parse_row(src).ok_or_else(|| Violation::new("harness-error", "cannot parse row", case.clone()))?;
            judge_in_process(&row, ctx, if cfg!(debug_assertions) { "dev" } else { "release" })?;
            let mut sc = cli::Scratch::new("C09", "replay");
            for (tag, bin) in [("debug", cli::fml_debug()), ("release", cli::fml_release())].iter() {
                if let Some(v) = cli_single(&row, tag, bin, ctx, &mut sc) {
                    return Err(v);
                }
            }
            return Ok(());
        }
        if let Some(t) = case["tape"].as_str() {
            if let Some(bytes) = crate::tape::unhex(t) {
                return self.judge_tape(&bytes, ctx);
            }
        }
        Err(Violation::new("harness-error", "unusable replay case", case.clone()))
    }
}

fn parse_opd(s: &str) -> Option<Opd> {
    match s {
        "null" => Some(Opd::Null),
        "true" => Some(Opd::Bool(true)),
        "false" => Some(Opd::Bool(false)),
        "array(1,0)" => Some(Opd::Array),
        "(object begin end)" => Some(Opd::Object),
        x => x.parse::<i32>().ok().map(Opd::Int),
    }
}

fn parse_row(src: &str) -> Option<Row> {
    let inner = src.strip_prefix("print(\"~\\n\", ")?.strip_suffix(")")?;
    for op in ALL_OPS.iter() {
        let pat = format!(".{}(", feeny_name(op));
        if let Some(p) = inner.find(&pat) {
            if inner.ends_with(')') {
                let a = parse_opd(&inner[..p])?;
                let b = parse_opd(&inner[p + pat.len()..inner.len() - 1])?;
                return Some(Row { a, op, b, feeny: Some(feeny_name(op)) });
            }
        }
    }
    for op in ALL_OPS.iter() {
        let pat = format!(" {} ", op);
        if let Some(p) = inner.find(&pat) {
            let a = parse_opd(&inner[..p])?;
            let b = parse_opd(&inner[p + pat.len()..])?;
            return Some(Row { a, op, b, feeny: None });
        }
    }
    None
}
