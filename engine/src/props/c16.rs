//! C16 — heap log: one record per created array/object; memory flags are inert.

use crate::cli::{self, Status};
use crate::fmlrun;
use crate::gen::prog::{generate, Profile};
use crate::harness::*;
use crate::ir::*;
use crate::refsem::{self, Outcome, Shape};
use crate::render;
use crate::tape::{hex, Tape};
use serde_json::{json, Value};
use std::cell::RefCell;
use std::collections::BTreeMap;

pub struct C16;

/// what the increment may depend on: array length, or the multisets of field-name
/// and method-name lengths
fn shape_key(s: &Shape) -> Shape {
    match s {
        Shape::Array(n) => Shape::Array(*n),
        Shape::Object(f, m) => {
            let mut f = f.clone();
            let mut m = m.clone();
            f.sort();
            m.sort();
            Shape::Object(f, m)
        }
    }
}

struct Worker {
    sc: cli::Scratch,
    table: BTreeMap<Shape, u64>,
    n: u64,
    /// false once the log written through the in-process stepping loop disagreed with the log
    /// the real binary writes for the same program: the property is about `--heap-log` of the
    /// binary, and the in-process shortcut (State + set_log + step loop) bypasses
    /// `evaluate_with_memory_config`, so a tree that writes its records there is not wrong
    inproc_log_ok: bool,
}

/// the log `fml run --heap-log` (release binary) writes for `src`
fn cli_log(wk: &mut Worker, src: &str) -> Result<String, Violation> {
    let f = wk.sc.file("confirm.fml");
    let l = wk.sc.file("confirm.csv");
    std::fs::write(&f, src).unwrap();
    let _ = std::fs::remove_file(&l);
    cli::run_fml(&cli::fml_release(), &["run", f.to_str().unwrap(), "--heap-log", l.to_str().unwrap()]).map_err(|e| Violation::new("harness-error", e.to_string(), json!({})))?;
    Ok(std::fs::read_to_string(&l).unwrap_or_default())
}

thread_local! {
    static W: RefCell<Option<Worker>> = RefCell::new(None);
}

/// Parse and check a heap log against the allocation history of the reference run.
fn check_log(text: &str, allocs: &[Shape], table: &mut BTreeMap<Shape, u64>, learn: bool) -> Result<(), String> {
    let mut lines = text.split('\n');
    if lines.next() != Some("timestamp,event,heap") {
        return Err(format!("header is not `timestamp,event,heap`: {:?}", text.lines().next()));
    }
    let mut records: Vec<(String, String, String)> = vec![];
    let rest: Vec<&str> = lines.collect();
    for (i, l) in rest.iter().enumerate() {
        if l.is_empty() {
            if i + 1 == rest.len() {
                continue;
            }
            return Err(format!("empty line {} inside the log", i + 2));
        }
        let parts: Vec<&str> = l.split(',').collect();
        if parts.len() != 3 {
            return Err(format!("line {} has {} fields: {:?}", i + 2, parts.len(), l));
        }
        records.push((parts[0].to_string(), parts[1].to_string(), parts[2].to_string()));
    }
    if records.is_empty() {
        return Err("no start record".into());
    }
    for (i, (ts, _, _)) in records.iter().enumerate() {
        if ts.is_empty() || !ts.bytes().all(|b| b.is_ascii_digit()) {
            return Err(format!("record {}: timestamp {:?} is not a decimal number", i, ts));
        }
    }
    if records[0].1 != "S" || records[0].2 != "0" {
        return Err(format!("first record is {:?}, not a start record with heap 0", records[0]));
    }
    let a: Vec<&(String, String, String)> = records[1..].iter().collect();
    if let Some(bad) = a.iter().find(|r| r.1 != "A") {
        return Err(format!("unexpected event {:?} (only S then A records are defined without a collector)", bad.1));
    }
    if a.len() != allocs.len() {
        return Err(format!("{} A records, but the program created {} arrays/objects", a.len(), allocs.len()));
    }
    let mut prev: u64 = 0;
    for (i, (r, shape)) in a.iter().zip(allocs.iter()).enumerate() {
        let cum: u64 = r.2.parse().map_err(|_| format!("record {}: heap size {:?} is not a number", i + 1, r.2))?;
        if cum <= prev {
            return Err(format!("record {}: cumulative size {} is not larger than the previous {}", i + 1, cum, prev));
        }
        let inc = cum - prev;
        prev = cum;
        let key = shape_key(shape);
        match table.get(&key) {
            Some(known) if *known != inc => {
                return Err(format!(
                    "record {}: a value of shape {:?} added {} bytes, but the same shape added {} bytes before (increments must depend only on the shape)",
                    i + 1,
                    key,
                    inc,
                    known
                ))
            }
            Some(_) => {}
            None => {
                if learn {
                    table.insert(key, inc);
                }
            }
        }
    }
    Ok(())
}

fn probes() -> Vec<&'static str> {
    vec![
        "array(0, 0)",
        "array(5, 0)",
        "object begin end",
        "object begin let ab = 1 end",
        "object begin function xyz() -> 1 end",
        "array(5, 0); array(0, 0); array(5, 0); object begin let zz = 2 end; object begin end",
    ]
}

fn judge(prog: &Prog, ctx: &mut Ctx, tape: &[u8], cli_level: u8) -> Judged {
    judge_fuel(prog, ctx, tape, cli_level, refsem::DEFAULT_FUEL)
}

/// Long allocation histories: thousands to 10^5 records, so that the log outgrows every buffer
/// (8 KiB, 64 KiB) on the way, ending normally, with an interpreter error, and with a panic
/// (division by zero) - the records written before the end must all be there.
fn long_histories() -> Vec<(String, Prog)> {
    let mut out = vec![];
    for n in [700i32, 3000, 20_000, 100_000] {
        for (ename, ending) in [("ends-normally", E::Null), ("ends-in-unknown-method", mcall(E::Int(1), "nosuchmethod", vec![])), ("ends-in-division-by-zero", bin("/", E::Int(1), E::Int(0)))] {
            for (kname, alloc) in [
                ("arrays", E::Array(bx(bin("%", var("i"), E::Int(5))), bx(E::Int(0)))),
                ("objects", E::Object(None, vec![Member::Field("a".into(), var("i")), Member::Method("m".into(), vec![], E::Int(1))])),
            ] {
                let body = E::Block(vec![alloc.clone(), assign("i", bin("+", var("i"), E::Int(1)))]);
                let prog: Prog = vec![
                    let_("i", E::Int(0)),
                    E::While(bx(bin("<", var("i"), E::Int(n))), bx(body)),
                    print("made ~\\n", vec![var("i")]),
                    ending.clone(),
                    print("end\\n", vec![]),
                ];
                out.push((format!("{}-{}-{}", n, kname, ename), prog));
            }
        }
    }
    out
}

/// Creations that fail: the value that is not created must not be logged, the ones created on
/// the way (a parent, earlier field values) must be.
fn failing_creations() -> Vec<(String, Prog)> {
    let obj = |ms: Vec<Member>| E::Object(None, ms);
    let f = |n: &str, v: i32| Member::Field(n.into(), E::Int(v));
    let cases: Vec<(&str, E)> = vec![
        ("field-twice", obj(vec![f("x", 1), f("y", 2), f("x", 3)])),
        ("field-twice-adjacent", obj(vec![f("x", 1), f("x", 3)])),
        ("method-twice", obj(vec![Member::Method("m".into(), vec![], E::Int(1)), Member::Method("m".into(), vec![], E::Int(2))])),
        ("field-twice-with-allocated-values", obj(vec![Member::Field("x".into(), E::Array(bx(E::Int(1)), bx(E::Int(0)))), Member::Field("x".into(), obj(vec![]))])),
        ("field-twice-with-allocated-parent", E::Object(Some(bx(E::Array(bx(E::Int(1)), bx(E::Int(0))))), vec![f("a", 1), f("a", 2)])),
        ("array-negative-size", E::Array(bx(E::Int(-1)), bx(E::Int(0)))),
        ("array-negative-size-allocating-initializer", E::Array(bx(E::Int(-1)), bx(obj(vec![])))),
        ("array-size-null", E::Array(bx(E::Null), bx(E::Int(0)))),
        ("array-size-is-an-array", E::Array(bx(E::Array(bx(E::Int(1)), bx(E::Int(0)))), bx(E::Int(0)))),
    ];
    let mut out = vec![];
    // programs whose entry method has no instruction at all: the log still has its header and
    // its start record
    out.push(("definitions-only".to_string(), vec![E::Fun("f".into(), vec![], bx(E::Array(bx(E::Int(1)), bx(E::Int(0)))))]));
    out.push(("two-definitions-only".to_string(), vec![E::Fun("f".into(), vec![], bx(E::Int(1))), E::Fun("g".into(), vec!["a".into()], bx(var("a")))]));
    for (name, bad) in cases {
        // at the top level, inside a function, and as the third of five creations in a loop
        out.push((format!("{}-top-level", name), vec![E::Array(bx(E::Int(2)), bx(E::Int(0))), print("before\\n", vec![]), bad.clone(), print("after\\n", vec![])]));
        out.push((
            format!("{}-in-function", name),
            vec![E::Fun("make".into(), vec![], bx(E::Block(vec![obj(vec![f("q", 1)]), bad.clone()]))), print("before\\n", vec![]), call("make", vec![]), print("after\\n", vec![])],
        ));
        out.push((
            format!("{}-in-loop", name),
            vec![
                let_("i", E::Int(0)),
                E::While(
                    bx(bin("<", var("i"), E::Int(5))),
                    bx(E::Block(vec![E::Array(bx(var("i")), bx(E::Int(0))), E::If(bx(bin("==", var("i"), E::Int(2))), bx(bad.clone()), Some(bx(E::Null))), assign("i", bin("+", var("i"), E::Int(1)))])),
                ),
                print("after\\n", vec![]),
            ],
        ));
    }
    out
}

fn judge_fuel(prog: &Prog, ctx: &mut Ctx, tape: &[u8], cli_level: u8, fuel: u64) -> Judged {
    ctx.eval();
    let r = refsem::run(prog, fuel);
    if r.outcome == Outcome::Fuel {
        ctx.exclude("reference-fuel");
        return Ok(());
    }
    let src = render::text(prog, render::Style::Minimal);
    let case = || json!({"tape": hex(tape), "source": render::pretty(prog), "ir": serde_json::to_value(prog).unwrap()});
    let pipe = match fmlrun::pipeline(&src) {
        Ok(p) => p,
        Err(e) => return ctx.settle(Violation::new("source-rejected", format!("{:?}", e), case())),
    };
    let res: Judged = W.with(|w| {
        let mut w = w.borrow_mut();
        if w.is_none() {
            let mut wk = Worker { sc: cli::Scratch::new("C16", "w"), table: BTreeMap::new(), n: 0, inproc_log_ok: true };
            // calibration probes through the tree under test: they seed the shape table
            for p in probes() {
                let ast = fmlrun::parse(p).map_err(|e| Violation::new("harness-error", e, json!({})))?;
                let prog = crate::ir::from_fml_ast(&ast);
                let rr = refsem::run(&prog, 10_000);
                let pp = fmlrun::pipeline(p).map_err(|e| Violation::new("harness-error", format!("{:?}", e), json!({})))?;
                let f = wk.sc.file("probe.csv");
                let _ = fmlrun::run_stepped_cfg(&pp.loaded, 100_000, Some(f.clone()));
                let text = std::fs::read_to_string(&f).unwrap_or_default();
                if !wk.inproc_log_ok || check_log(&text, &rr.allocs, &mut wk.table, true).is_err() {
                    // decided by the binary, not by the shortcut
                    let text = cli_log(&mut wk, p)?;
                    if let Err(e) = check_log(&text, &rr.allocs, &mut wk.table, true) {
                        return Err(Violation::new("heap-log", format!("calibration probe `{}` (`fml run --heap-log`): {}", p, e), json!({"source": p})).with("where", "probe"));
                    }
                    wk.inproc_log_ok = false;
                }
            }
            *w = Some(wk);
        }
        let wk = w.as_mut().unwrap();
        wk.n += 1;
        let fuel = 1000 + 400 * r.steps;
        // ---- in-process
        // the same path is reused run after run and never removed: a log left by an earlier,
        // longer run must not shine through (a user re-running with the same --heap-log)
        let f = wk.sc.file("log.csv");
        let x = fmlrun::run_stepped_cfg(&pipe.loaded, fuel, Some(f.clone()));
        let plain = fmlrun::run_stepped(&pipe.loaded, fuel);
        if x.out != plain.out || x.exec.class() != plain.exec.class() {
            return Err(Violation::new("flags-not-inert", format!("in-process: with log {:?} {:?}, without {:?} {:?}", x.exec, x.out, plain.exec, plain.out), case()).with("where", "in-process"));
        }
        if x.out != r.out || x.exec.is_ok() != (r.outcome == Outcome::Ok) {
            // a semantic difference is C01's business; it would invalidate the allocation history.
            // On the unchanged tree it can only come from a generator slip that left the fragment:
            // such a case is counted, anything else is a harness error (never a C16 violation)
            if !crate::fragment::check(prog) {
                ctx.exclude("outside-the-fragment(static check)");
                return Ok(());
            }
            ctx.exclude("semantic-disagreement(C01's business)");
            return Ok(());
        }
        let text = std::fs::read_to_string(&f).unwrap_or_default();
        if wk.inproc_log_ok {
            if let Err(e) = check_log(&text, &r.allocs, &mut wk.table, true) {
                let text = cli_log(wk, &src)?;
                if let Err(e2) = check_log(&text, &r.allocs, &mut wk.table, false) {
                    return Err(Violation::new("heap-log", format!("`fml run --heap-log`: {} (in-process log: {})", e2, e), case()).with("where", "cli"));
                }
                wk.inproc_log_ok = false;
            }
        }
        let mut cli_level = cli_level;
        if !wk.inproc_log_ok {
            // the shortcut does not see this tree's log: every failing program and every fourth
            // other one goes through the binary instead
            ctx.label("log-judged-through-the-binary-only");
            if r.outcome != Outcome::Ok || wk.n % 4 == 0 {
                let text = cli_log(wk, &src)?;
                if let Err(e) = check_log(&text, &r.allocs, &mut wk.table, true) {
                    return Err(Violation::new("heap-log", format!("`fml run --heap-log`: {}", e), case()).with("where", "cli"));
                }
                if wk.n % 64 == 0 {
                    cli_level = cli_level.max(1);
                }
            }
        }
        // ---- real binaries
        if cli_level > 0 {
            let rel = cli::fml_release();
            let dbg = cli::fml_debug();
            let fsrc = wk.sc.file("p.fml");
            std::fs::write(&fsrc, &src).unwrap();
            let herr = |e: String| Violation::new("harness-error", e, json!({}));
            let base = cli::run_fml(&rel, &["run", fsrc.to_str().unwrap()]).map_err(|e| herr(e.to_string()))?;
            let want_ok = r.outcome == Outcome::Ok;
            let same = |o: &cli::CliOut| -> bool { o.stdout == base.stdout && o.status.class() == base.status.class() };
            if base.out_str() != r.out || base.status.success() != want_ok || matches!(base.status, Status::Signal(_)) {
                ctx.exclude("semantic-disagreement(C01's business)");
                return Ok(());
            }
            let mut configs: Vec<(String, &String, Vec<String>, Option<std::path::PathBuf>)> = vec![];
            let l1 = wk.sc.file("cli1.csv");
            let newdir = wk.sc.dir.join(format!("fresh{}", wk.n)).join("sub");
            let l2 = newdir.join("log.csv");
            configs.push(("run --heap-log FILE".into(), &rel, vec!["run".into(), fsrc.to_str().unwrap().into(), "--heap-log".into(), l1.to_str().unwrap().into()], Some(l1.clone())));
            configs.push((
                "run --heap-log NEWDIR/sub/FILE".into(),
                &rel,
                vec!["run".into(), fsrc.to_str().unwrap().into(), "--heap-log".into(), l2.to_str().unwrap().into()],
                Some(l2.clone()),
            ));
            let mut sizes: Vec<&str> = vec!["0", "1", "7", "4096", "1048576"];
            if cli_level > 1 {
                sizes.push("17592186044416");
                sizes.push("18446744073709551615");
            }
            for s in &sizes {
                configs.push((format!("run --heap-size {}", s), &rel, vec!["run".into(), fsrc.to_str().unwrap().into(), "--heap-size".into(), s.to_string()], None));
                if cli_level > 1 {
                    configs.push((format!("run --heap-size {} (debug binary)", s), &dbg, vec!["run".into(), fsrc.to_str().unwrap().into(), "--heap-size".into(), s.to_string()], None));
                }
            }
            let l3 = wk.sc.file("cli3.csv");
            configs.push((
                "run --heap-size 7 --heap-log FILE (debug binary)".into(),
                &dbg,
                vec!["run".into(), fsrc.to_str().unwrap().into(), "--heap-size".into(), "7".into(), "--heap-log".into(), l3.to_str().unwrap().into()],
                Some(l3.clone()),
            ));
            for (name, bin, args, log) in configs {
                let a: Vec<&str> = args.iter().map(|s| s.as_str()).collect();
                let o = cli::run_fml(bin, &a).map_err(|e| herr(e.to_string()))?;
                ctx.label("cli-config");
                if !same(&o) {
                    return Err(Violation::new(
                        "flags-not-inert",
                        format!("`fml {}`: status {:?} stdout {:?} stderr {:?}\nwithout the flag: status {:?} stdout {:?}", name, o.status, o.out_str().chars().take(200).collect::<String>(), o.err_str().chars().take(200).collect::<String>(), base.status, base.out_str().chars().take(200).collect::<String>()),
                        case(),
                    )
                    .with("where", "cli")
                    .with("config", if name.contains("heap-size 1") && name.len() > 30 { "huge-heap-size".to_string() } else { name.split(' ').take(2).collect::<Vec<_>>().join(" ") }));
                }
                if let Some(l) = &log {
                    let text = match std::fs::read_to_string(l) {
                        Ok(t) => t,
                        Err(e) => return Err(Violation::new("heap-log", format!("`fml {}` wrote no readable log: {}", name, e), case()).with("where", "cli")),
                    };
                    if let Err(e) = check_log(&text, &r.allocs, &mut wk.table, false) {
                        return Err(Violation::new("heap-log", format!("`fml {}`: {}", name, e), case()).with("where", "cli"));
                    }
                }
            }
            // compile + execute
            let fjson = wk.sc.file("p.json");
            let fbc = wk.sc.file("p.bc");
            let p1 = cli::run_fml(&rel, &["parse", fsrc.to_str().unwrap(), "-o", fjson.to_str().unwrap()]).map_err(|e| herr(e.to_string()))?;
            let p2 = cli::run_fml(&rel, &["compile", fjson.to_str().unwrap(), "-o", fbc.to_str().unwrap()]).map_err(|e| herr(e.to_string()))?;
            if p1.status.success() && p2.status.success() {
                let l4 = wk.sc.file("cli4.csv");
                let e1 = cli::run_fml(&rel, &["execute", fbc.to_str().unwrap()]).map_err(|e| herr(e.to_string()))?;
                let e2 = cli::run_fml(&rel, &["execute", fbc.to_str().unwrap(), "--heap-log", l4.to_str().unwrap(), "--heap-size", "3"]).map_err(|e| herr(e.to_string()))?;
                ctx.label("cli-config");
                if !same(&e1) || !same(&e2) {
                    return Err(Violation::new("flags-not-inert", format!("`fml execute` with/without --heap-log differs from `fml run`: {:?} / {:?} / {:?}", e1.status, e2.status, base.status), case()).with("where", "cli"));
                }
                let text = std::fs::read_to_string(&l4).unwrap_or_default();
                if let Err(e) = check_log(&text, &r.allocs, &mut wk.table, false) {
                    return Err(Violation::new("heap-log", format!("`fml execute --heap-log`: {}", e), case()).with("where", "cli"));
                }
            } else {
                ctx.exclude("staged-compile-refused(C06)");
            }
            let _ = std::fs::remove_dir_all(wk.sc.dir.join(format!("fresh{}", wk.n)));
        }
        Ok(())
    });
    if let Err(v) = res {
        return ctx.settle(v);
    }
    let mut kinds: Vec<Shape> = r.allocs.iter().map(shape_key).collect();
    let total = kinds.len();
    kinds.sort();
    kinds.dedup();
    ctx.label(&format!("allocations:{}", match total { 0 => "0", 1..=2 => "1-2", 3..=9 => "3-9", 10..=99 => "10-99", _ => "100+" }));
    if r.outcome != Outcome::Ok {
        ctx.label("fails-mid-way");
    }
    if total >= 3 && kinds.len() >= 2 {
        ctx.nontrivial(src.as_bytes());
    }
    ctx.sample(src.len(), || json!({"source": render::pretty(prog), "allocations": total, "distinct_shapes": kinds.len()}));
    Ok(())
}

impl Property for C16 {
    fn id(&self) -> &'static str {
        "C16"
    }
    fn ir_shrinkable(&self) -> bool {
        true
    }
    fn rule(&self) -> String {
        "cases: programs from the typed generator with the allocation profile (arrays simple and compound of size 0-40, objects with 0-6 fields and 0-4 methods with names of varied length, in loops, functions and as parents; ~12% fail mid-way; some allocate nothing). In-process for every case: State::from + heap.set_log + step loop (a shortcut: a log it gets wrong is reported only if `fml run --heap-log` gets it wrong for the same program too; if the two differ, the binary alone is used from then on); for a sample the real `fml run` with --heap-log FILE, --heap-log into a not-yet-existing directory, --heap-size in {0,1,7,4096,2^20} (for a sub-sample also 2^44 and u64::MAX on release AND debug binaries), and `fml compile` + `fml execute` with and without the flags. oracle: header exactly `timestamp,event,heap`, one S record with heap 0, then exactly as many A records as the reference semantics' allocation history (up to the failure), decimal timestamps, strictly increasing cumulative sizes whose increments are a function of the created value's shape (array length; multisets of field- and method-name lengths) - checked against a table seeded by calibration probes and extended by every observation; stdout and zero/non-zero status identical under every flag combination. non-trivial: >=3 allocations of >=2 different shapes; distinct by source".into()
    }
    fn assumptions(&self) -> Vec<String> {
        vec![
            "for array(n, <compound initializer>) the array itself is created before its elements are computed (the documented desugaring)".into(),
            "no collector exists, so only S and A records are defined".into(),
        ]
    }
    fn random_cases(&self, tier: Tier) -> u64 {
        tier.pick(60_000, 2_000_000)
    }
    fn max_shrink_iters(&self) -> u32 {
        300
    }
    fn fixed_parts(&self, ctx: &mut Ctx) -> Vec<Violation> {
        let mut out = vec![];
        for (i, (name, prog)) in long_histories().into_iter().enumerate() {
            if !ctx.shard_mine(i) {
                continue;
            }
            ctx.label("long-history-program");
            if let Err(mut v) = judge_fuel(&prog, ctx, &[], 1, 5_000_000) {
                v.detail = format!("[long history {}] {}", name, v.detail);
                out.push(v);
            }
        }
        for (i, (name, prog)) in failing_creations().into_iter().enumerate() {
            if !ctx.shard_mine(i + 5) {
                continue;
            }
            ctx.label("failing-creation-program");
            if let Err(mut v) = judge_fuel(&prog, ctx, &[], 1, refsem::DEFAULT_FUEL) {
                v.detail = format!("[failing creation {}] {}", name, v.detail);
                out.push(v);
            }
        }
        out
    }
    fn judge_tape(&self, tape: &[u8], ctx: &mut Ctx) -> Judged {
        let mut t = Tape::new(tape);
        let g = generate(&mut t, &Profile::alloc_heavy());
        let every = ctx.tier.pick(60, 100);
        let level = if tape_sample(tape, every * 5) {
            2
        } else if tape_sample(tape, every) {
            1
        } else {
            0
        };
        judge(&g.prog, ctx, tape, level)
    }
    fn replay(&self, case: &Value, ctx: &mut Ctx) -> Judged {
        if case.get("ir").is_some() || case.get("source").is_some() {
            let prog = crate::props::c01::prog_from_case(case).map_err(|e| Violation::new("harness-error", e, case.clone()))?;
            return judge(&prog, ctx, &[], 2);
        }
        if let Some(t) = case["tape"].as_str() {
            if let Some(bytes) = crate::tape::unhex(t) {
                let mut tp = Tape::new(&bytes);
                let g = generate(&mut tp, &Profile::alloc_heavy());
                return judge(&g.prog, ctx, &bytes, 2);
            }
        }
        Err(Violation::new("harness-error", "unusable replay case", case.clone()))
    }
}
