//! C10 — failing programs stop cleanly at the fault; the toolchain never crashes natively.
//! Everything is observed on the real binaries (exit status, stdout, stderr, signals).

use crate::cli::{self, Status};
use crate::fmlrun;
use crate::gen::prog::{generate, Profile};
use crate::harness::*;
use crate::ir::*;
use crate::refsem::{self, Outcome};
use crate::render;
use crate::tape::{hex, mix, Tape};
use serde_json::{json, Value};

pub struct C10;

// ------------------------------------------------------------------ (a) fault injection

fn prelude() -> Vec<E> {
    vec![
        E::Fun("c10f".into(), vec!["a".into()], bx(var("a"))),
        let_("c10o", E::Object(None, vec![Member::Field("fld".into(), E::Int(1)), Member::Method("m".into(), vec!["a".into()], var("a"))])),
        let_("c10a", E::Array(bx(E::Int(3)), bx(E::Int(0)))),
    ]
}

pub fn fault_classes() -> Vec<(&'static str, E)> {
    let obj = || E::Object(None, vec![]);
    vec![
        ("unknown-variable-read", var("c10nope")),
        ("unknown-variable-write", assign("c10nope", E::Int(1))),
        ("unknown-function", call("c10nofun", vec![E::Int(1)])),
        ("unknown-method-object", mcall(obj(), "nometh", vec![])),
        ("unknown-method-null", mcall(E::Null, "nometh", vec![E::Int(1)])),
        // names that null / integers DO understand, on an object whose chain ends in null
        ("object-equals-without-method", bin("==", obj(), E::Int(1))),
        ("object-unequal-without-method", bin("!=", E::Object(Some(bx(obj())), vec![]), E::Null)),
        ("object-eq-feeny-without-method", mcall(var("c10o"), "eq", vec![var("c10o")])),
        ("object-plus-without-method", bin("+", var("c10o"), E::Int(1))),
        ("unknown-method-int", mcall(E::Int(1), "nometh", vec![E::Int(2)])),
        ("unknown-method-array", mcall(var("c10a"), "nometh", vec![])),
        ("unknown-field-read", field(obj(), "nofield")),
        ("unknown-field-write", E::FieldSet(bx(var("c10o")), "nofield".into(), bx(E::Int(1)))),
        ("field-on-primitive", field(E::Int(1), "f")),
        ("field-on-array", field(var("c10a"), "f")),
        ("function-arity-minus", call("c10f", vec![])),
        ("function-arity-plus", call("c10f", vec![E::Int(1), E::Int(2)])),
        ("method-arity-minus", mcall(var("c10o"), "m", vec![])),
        ("method-arity-plus", mcall(var("c10o"), "m", vec![E::Int(1), E::Int(2)])),
        ("builtin-arity-plus", mcall(E::Int(1), "+", vec![E::Int(1), E::Int(2)])),
        ("builtin-arity-minus", mcall(E::Int(1), "+", vec![])),
        ("array-get-arity", mcall(var("c10a"), "get", vec![])),
        ("array-get-extra-argument", mcall(var("c10a"), "get", vec![E::Int(0), E::Int(1)])),
        ("array-set-missing-value", mcall(var("c10a"), "set", vec![E::Int(0)])),
        ("array-set-extra-argument", mcall(var("c10a"), "set", vec![E::Int(0), E::Int(1), E::Int(2)])),
        ("index-minus-one", index(var("c10a"), E::Int(-1))),
        ("index-equals-length", index(var("c10a"), E::Int(3))),
        ("index-non-integer", index(var("c10a"), E::Bool(true))),
        ("index-set-out-of-range", E::IndexSet(bx(var("c10a")), bx(E::Int(3)), bx(E::Int(1)))),
        ("negative-size", E::Array(bx(E::Int(-1)), bx(E::Int(0)))),
        ("negative-size-compound", E::Array(bx(E::Int(-1)), bx(call("c10f", vec![E::Int(1)])))),
        ("non-integer-size", E::Array(bx(E::Null), bx(E::Int(0)))),
        ("int-plus-bool", bin("+", E::Int(1), E::Bool(true))),
        ("int-less-null", bin("<", E::Int(1), E::Null)),
        ("bool-and-int", bin("&", E::Bool(true), E::Int(1))),
        ("null-plus-int", bin("+", E::Null, E::Int(1))),
        ("print-placeholder-too-many", print("x ~ é ~\\n", vec![E::Int(1)])),
        ("print-argument-too-many", print("ž ~\\n", vec![E::Int(1), E::Int(2)])),
        ("print-placeholder-without-any-argument", print("x = ~\\n", vec![])),
        ("print-two-placeholders-without-any-argument", print("a ~ b ~ c", vec![])),
        ("division-by-zero", bin("/", E::Int(1), E::Int(0))),
        ("remainder-by-zero", bin("%", E::Int(1), E::Int(0))),
        ("min-div-minus-one", bin("/", E::Int(i32::MIN), E::Int(-1))),
        // names that WERE declared, in a block that has ended since: as unknown as a name that
        // never existed (the use sits inside one more block, so it is not at the outermost level)
        ("out-of-scope-read", E::Block(vec![E::Block(vec![let_("c10gone", E::Int(7)), var("c10gone")]), var("c10gone")])),
        ("out-of-scope-write", E::Block(vec![E::Block(vec![let_("c10gone2", E::Int(7))]), assign("c10gone2", E::Int(8))])),
        ("out-of-scope-read-after-if", E::Block(vec![E::If(bx(E::Bool(true)), bx(E::Block(vec![let_("c10gone3", E::Int(7)), E::Null])), Some(bx(E::Null))), var("c10gone3")])),
        ("out-of-scope-read-after-loop", E::Block(vec![let_("c10once", E::Bool(true)), E::While(bx(var("c10once")), bx(E::Block(vec![let_("c10gone4", E::Int(7)), assign("c10once", E::Bool(false))]))), var("c10gone4")])),
        // built-ins reached through a parent, called with a surplus argument or with none
        ("builtin-via-int-parent-arity-plus", mcall(E::Object(Some(bx(E::Int(5))), vec![]), "+", vec![E::Int(100), E::Int(2)])),
        ("builtin-via-bool-parent-arity-plus", mcall(E::Object(Some(bx(E::Bool(true))), vec![]), "&", vec![E::Bool(true), E::Bool(true)])),
        ("builtin-via-int-parent-arity-minus", mcall(E::Object(Some(bx(E::Int(5))), vec![]), "-", vec![])),
        ("builtin-via-array-parent-arity-plus", mcall(E::Object(Some(bx(E::Array(bx(E::Int(2)), bx(E::Int(0))))), vec![]), "get", vec![E::Int(0), E::Int(0)])),
        ("builtin-via-two-parents-arity-plus", mcall(E::Object(Some(bx(E::Object(Some(bx(E::Int(5))), vec![]))), vec![]), "*", vec![E::Int(3), E::Int(2)])),
    ]
}

/// visit every statement list (top level and every block, also inside function
/// and method bodies) in pre-order
fn for_lists(e: &mut E, f: &mut dyn FnMut(&mut Vec<E>)) {
    match e {
        E::Block(items) => {
            f(items);
            for x in items.iter_mut() {
                for_lists(x, f);
            }
        }
        E::Int(_) | E::Bool(_) | E::Null | E::Var(_) => {}
        E::Let(_, v) | E::Assign(_, v) => for_lists(v, f),
        E::If(c, t, el) => {
            for_lists(c, f);
            for_lists(t, f);
            if let Some(x) = el {
                for_lists(x, f);
            }
        }
        E::While(c, b) => {
            for_lists(c, f);
            for_lists(b, f);
        }
        E::Array(a, b) | E::Index(a, b) => {
            for_lists(a, f);
            for_lists(b, f);
        }
        E::IndexSet(a, b, c) => {
            for_lists(a, f);
            for_lists(b, f);
            for_lists(c, f);
        }
        E::Object(p, ms) => {
            if let Some(p) = p {
                for_lists(p, f);
            }
            for m in ms.iter_mut() {
                match m {
                    Member::Field(_, x) => for_lists(x, f),
                    Member::Method(_, _, b) => for_lists(b, f),
                }
            }
        }
        E::Field(o, _) => for_lists(o, f),
        E::FieldSet(o, _, v) => {
            for_lists(o, f);
            for_lists(v, f);
        }
        E::Call(_, a) | E::Print(_, a) => {
            for x in a.iter_mut() {
                for_lists(x, f);
            }
        }
        E::MCall(r, _, a) => {
            for_lists(r, f);
            for x in a.iter_mut() {
                for_lists(x, f);
            }
        }
        E::Bin(_, l, r) => {
            for_lists(l, f);
            for_lists(r, f);
        }
        E::Fun(_, _, b) => for_lists(b, f),
    }
}

fn for_all_lists(prog: &mut Prog, f: &mut dyn FnMut(&mut Vec<E>)) {
    f(prog);
    for e in prog.iter_mut() {
        for_lists(e, f);
    }
}

/// a marker print before every statement of every list
fn add_markers(prog: &mut Prog) {
    let mut id = 0;
    for_all_lists(prog, &mut |items| {
        let old = std::mem::take(items);
        for it in old {
            if !matches!(it, E::Fun(..)) {
                id += 1;
                items.push(print(&format!("<{}>", id), vec![]));
            }
            items.push(it);
        }
    });
}

fn list_sizes(prog: &mut Prog) -> Vec<usize> {
    let mut v = vec![];
    for_all_lists(prog, &mut |items| v.push(items.len()));
    v
}

fn insert_at(prog: &Prog, list: usize, pos: usize, stmt: &E) -> Prog {
    let mut p = prog.clone();
    let mut k = 0;
    let mut done = false;
    for_all_lists(&mut p, &mut |items| {
        if k == list && !done {
            items.insert(pos.min(items.len()), stmt.clone());
            done = true;
        }
        k += 1;
    });
    p
}

struct Runner {
    sc: cli::Scratch,
    release: String,
    debug: String,
    n: u64,
}

impl Runner {
    fn new() -> Runner {
        Runner { sc: cli::Scratch::new("C10", "w"), release: cli::fml_release(), debug: cli::fml_debug(), n: 0 }
    }
    fn run_source(&mut self, src: &[u8], debug: bool) -> std::io::Result<cli::CliOut> {
        let f = self.sc.file("case.fml");
        std::fs::write(&f, src)?;
        self.n += 1;
        cli::run_fml(if debug { &self.debug } else { &self.release }, &["run", f.to_str().unwrap()])
    }
}

/// Judge one program against the reference on the real binary.
fn judge_cli(prog: &Prog, r: &refsem::RunResult, run: &mut Runner, debug: bool, ctx: &mut Ctx, case: &dyn Fn() -> Value, what: &str) -> Judged {
    judge_cli_how(prog, r, run, debug, false, ctx, case, what)
}

/// `via_execute`: compile in-process, then `fml execute FILE` (the statement covers run AND execute)
fn judge_cli_how(prog: &Prog, r: &refsem::RunResult, run: &mut Runner, debug: bool, via_execute: bool, ctx: &mut Ctx, case: &dyn Fn() -> Value, what: &str) -> Judged {
    ctx.eval();
    let src = render::text(prog, render::Style::Minimal);
    let o = if via_execute {
        let image = match fmlrun::pipeline(&src) {
            Ok(p) => p.bytes,
            Err(_) => return Ok(()),
        };
        let f = run.sc.file("case.bc");
        if std::fs::write(&f, &image).is_err() {
            return Ok(());
        }
        ctx.label("via-execute");
        match cli::run_fml(if debug { &run.debug } else { &run.release }, &["execute", f.to_str().unwrap()]) {
            Ok(o) => o,
            Err(e) => return Err(Violation::new("harness-error", format!("cannot run fml: {}", e), json!({}))),
        }
    } else {
        match run.run_source(src.as_bytes(), debug) {
            Ok(o) => o,
            Err(e) => return Err(Violation::new("harness-error", format!("cannot run fml: {}", e), json!({}))),
        }
    };
    let bin = if via_execute { "release, fml execute" } else if debug { "debug" } else { "release" };
    if let Status::Signal(s) = o.status {
        return ctx.settle(Violation::new("native-crash", format!("{}: fml ({}) died on signal {}", what, bin, s), case()).with("what", what));
    }
    let ok_expected = r.outcome == Outcome::Ok;
    let mut problems = vec![];
    if o.out_str() != r.out {
        problems.push(format!("stdout differs:\n  expected {:?}\n  actual   {:?}", r.out, o.out_str()));
    }
    if ok_expected {
        if !o.status.success() {
            problems.push(format!("exit status {:?} for a program that succeeds", o.status));
        }
        if !o.stderr.is_empty() {
            problems.push(format!("stderr not empty on success: {:?}", o.err_str().chars().take(200).collect::<String>()));
        }
    } else {
        if o.status.success() {
            problems.push("exit status 0 for a failing program".to_string());
        }
        if o.stderr.is_empty() {
            problems.push("no diagnostic on stderr".to_string());
        }
    }
    if !problems.is_empty() {
        return ctx.settle(
            Violation::new(
                if ok_expected { "success-not-clean" } else { "failure-not-clean" },
                format!("{} [{} binary; reference: {:?}]\n{}", what, bin, r.outcome, problems.join("\n")),
                case(),
            )
            .with("what", what),
        );
    }
    Ok(())
}

fn injection_campaign(tape: &[u8], ctx: &mut Ctx, run: &mut Runner) -> Judged {
    let mut t = Tape::new(tape);
    let mut prof = Profile::full().no_fault();
    prof.max_top = 8;
    prof.budget = 110;
    let g = generate(&mut t, &prof);
    let mut base: Prog = prelude();
    base.extend(g.prog);
    add_markers(&mut base);
    let rb = refsem::run(&base, refsem::DEFAULT_FUEL);
    if rb.outcome != Outcome::Ok {
        ctx.exclude("base-program-not-ok");
        return Ok(());
    }
    if !crate::fragment::check(&base) {
        // second guard against generator slips: only base programs the static checker vouches for
        ctx.exclude("base-program-outside-the-fragment(static check)");
        return Ok(());
    }
    let case0 = || json!({"tape": hex(tape), "source": render::pretty(&base), "ir": serde_json::to_value(&base).unwrap()});
    ctx.label("base-program");
    judge_cli(&base, &rb, run, false, ctx, &case0, "un-injected base program")?;
    judge_cli(&base, &rb, run, true, ctx, &case0, "un-injected base program")?;
    let sizes = list_sizes(&mut base.clone());
    let classes = fault_classes();
    // every statement position x every fault class, thinned to a bound per base program
    // faults mention the prelude's definitions: at the top level they are injected only after it
    // (a global read before its `let` is outside the fragment)
    let first_top = base.iter().position(|e| matches!(e, E::Let(n, _) if n == "c10a")).map(|i| i + 1).unwrap_or(0);
    let mut all: Vec<(usize, usize, usize)> = vec![];
    for (li, n) in sizes.iter().enumerate() {
        for pos in (if li == 0 { first_top } else { 0 })..=*n {
            for ci in 0..classes.len() {
                all.push((li, pos, ci));
            }
        }
    }
    let bound = ctx.tier.pick(420, 900);
    let stride = (all.len() + bound - 1) / bound;
    let offset = (mix(crate::tape::digest(tape)) as usize) % stride.max(1);
    for (k, (li, pos, ci)) in all.iter().enumerate() {
        if stride > 1 && k % stride != offset {
            ctx.bump("injections_thinned_out", 1);
            continue;
        }
        let (cname, fault) = &classes[*ci];
        let prog = insert_at(&base, *li, *pos, fault);
        let r = refsem::run(&prog, refsem::DEFAULT_FUEL);
        if r.outcome == Outcome::Fuel {
            ctx.exclude("reference-fuel");
            continue;
        }
        let reached = r.outcome != Outcome::Ok;
        ctx.label(if reached { "fault:reached" } else { "fault:in-dead-code" });
        ctx.label(&format!("class:{}", cname));
        let case = || json!({"source": render::pretty(&prog), "ir": serde_json::to_value(&prog).unwrap(), "fault": cname, "list": li, "position": pos});
        let debug = k % 10 == 3;
        judge_cli_how(&prog, &r, run, debug, k % 7 == 5, ctx, &case, &format!("fault {} at list {} position {}", cname, li, pos))?;
        if reached && r.out.contains('<') {
            ctx.nontrivial(render::text(&prog, render::Style::Minimal).as_bytes());
            if k % 97 == 0 {
                ctx.sample(prog.len(), || json!({"fault": cname, "source": render::pretty(&prog), "stdout_up_to_fault": r.out}));
            }
        }
    }
    Ok(())
}

// ------------------------------------------------------------------ (b) malformed source

const JUNK_TOKENS: [&str; 24] = [
    "(", ")", "[", "]", "begin", "end", ";", ",", ".", "<-", "->", "=", "let", "if", "then", "else", "while", "do", "\"abc", "/* open", "\"a\\qb\"",
    "99999999999", "$", "@",
];

fn malformed_campaign(tape: &[u8], ctx: &mut Ctx, run: &mut Runner) -> Judged {
    let mut t = Tape::new(tape);
    let mut prof = Profile::full().no_fault();
    prof.max_top = 5;
    prof.budget = 60;
    let g = generate(&mut t, &prof);
    let toks = render::tokens(&g.prog, render::Style::Minimal);
    if toks.is_empty() {
        return Ok(());
    }
    let n = ctx.tier.pick(24, 60);
    for k in 0..n {
        let mut v = toks.clone();
        let i = t.pick(v.len());
        let kind = t.pick(9);
        let mut raw: Option<Vec<u8>> = None;
        match kind {
            0 => {
                v.remove(i);
            }
            1 => {
                let x = v[i].clone();
                v.insert(i, x);
            }
            2 => {
                if i + 1 < v.len() {
                    v.swap(i, i + 1);
                }
            }
            3 | 4 => v.insert(i, JUNK_TOKENS[t.pick(JUNK_TOKENS.len())].to_string()),
            5 => {
                // unbalance: drop the first closing bracket / end after i
                if let Some(j) = v.iter().skip(i).position(|x| x == ")" || x == "end" || x == "]") {
                    v.remove(i + j);
                }
            }
            6 => v.push(["\"never closed", "/* never closed", "\\", "\"bad \\x escape\""][t.pick(4)].to_string()),
            7 => v[i] = ["2147483648", "-2147483649", "123456789012345678901234567890"][t.pick(3)].to_string(),
            _ => {
                // stray bytes, also invalid UTF-8
                let mut b = render::join_spaced(&v).into_bytes();
                let at = t.pick(b.len() + 1);
                let stray: &[u8] = [&[0u8][..], &[0xff, 0xfe][..], &[0xc3][..], &[0x7f][..], b"\xe2\x80"][t.pick(5)];
                for (q, x) in stray.iter().enumerate() {
                    b.insert(at + q, *x);
                }
                raw = Some(b);
            }
        }
        let bytes = raw.unwrap_or_else(|| render::join_spaced(&v).into_bytes());
        ctx.eval();
        let accepted = match std::str::from_utf8(&bytes) {
            Ok(s) => fmlrun::parse(s).is_ok(),
            Err(_) => false,
        };
        let o = match run.run_source(&bytes, k % 6 == 5) {
            Ok(o) => o,
            Err(e) => return Err(Violation::new("harness-error", format!("cannot run fml: {}", e), json!({}))),
        };
        let case = || json!({"source_bytes": hex(&bytes), "source_lossy": String::from_utf8_lossy(&bytes)});
        if let Status::Signal(s) = o.status {
            return ctx.settle(Violation::new("native-crash", format!("malformed source kills fml with signal {}", s), case()).with("what", "malformed-source"));
        }
        if !accepted {
            ctx.label("malformed:rejected");
            let mut problems = vec![];
            if o.status.success() {
                problems.push("exit status 0".to_string());
            }
            if !o.stdout.is_empty() {
                problems.push(format!("stdout not empty: {:?}", o.out_str().chars().take(120).collect::<String>()));
            }
            if o.stderr.is_empty() {
                problems.push("no diagnostic on stderr".to_string());
            }
            if !problems.is_empty() {
                return ctx.settle(Violation::new("invalid-source-not-rejected-cleanly", problems.join("; "), case()).with("what", "malformed-source"));
            }
            ctx.nontrivial(&bytes);
            if k == 0 {
                ctx.sample(bytes.len(), || json!({"malformed_source": String::from_utf8_lossy(&bytes), "exit": format!("{:?}", o.status)}));
            }
        } else {
            ctx.label("malformed:still-parses");
        }
    }
    Ok(())
}

// ------------------------------------------------------------------ (c) heap shapes, recursion, nesting

struct Shape {
    name: String,
    src: String,
    /// Some: exact stdout and exit 0 required; None: any clean outcome (no signal)
    expect: Option<String>,
    debug_too: bool,
    /// the program has a fault: it must not succeed, and nothing after the fault may run
    must_fail: bool,
}

fn shapes(tier: Tier) -> Vec<Shape> {
    let mut v: Vec<Shape> = vec![];
    // cycles through arrays, fields and both, of every length 1..64 and a few long ones
    let mut lens: Vec<usize> = (1..=64).collect();
    // the long ones matter: the renderer recurses once per level, so a cycle must be found
    // without walking it on the native stack (F8: a ring of 10^4 objects killed the release binary)
    lens.extend_from_slice(&[100, 1000, 3000, 10_000, 100_000]);
    if tier == Tier::Thorough {
        lens.extend_from_slice(&[2000, 5000, 20_000, 50_000, 300_000]);
    }
    for n in lens {
        let long = n >= 100;
        // array cycle: a0[0] -> a1, ..., a(n-1)[0] -> a0
        let s = format!(
            "let first = array(1, null); let cur = first; let i = 1; while i < {n} do begin let nx = array(1, null); cur[0] <- nx; cur <- nx; i <- i + 1 end; cur[0] <- first; print(\"built\\n\"); print(\"~\\n\", first); print(\"after\\n\")",
            n = n
        );
        v.push(Shape { name: format!("array-cycle-{}", n), src: s, expect: None, debug_too: n <= 8 || n == 64 || long, must_fail: false });
        let s = format!(
            "function mk() -> object begin let next = null; function hop() -> this.next end; let first = mk(); let cur = first; let i = 1; while i < {n} do begin let nx = mk(); cur.next <- nx; cur <- nx; i <- i + 1 end; cur.next <- first; print(\"built\\n\"); print(\"~\\n\", null == first.hop().hop()); print(\"~\\n\", first); print(\"after\\n\")",
            n = n
        );
        v.push(Shape { name: format!("field-cycle-{}", n), src: s, expect: None, debug_too: n <= 8 || n == 64 || long, must_fail: false });
        if long {
            // a cycle behind an acyclic tail of 500 links, entered from one field of a wide object
            let s = format!(
                "function mk() -> object begin let a = 1; let next = null; let z = array(2, 3) end; let first = mk(); let cur = first; let i = 1; while i < {n} do begin let nx = mk(); cur.next <- nx; cur <- nx; i <- i + 1 end; cur.next <- first; let tail = first; i <- 0; while i < 500 do begin tail <- array(2, tail); i <- i + 1 end; print(\"built\\n\"); print(\"~\\n\", object begin let p = 1; let q = tail; let r = 2 end); print(\"after\\n\")",
                n = n
            );
            v.push(Shape { name: format!("tail-then-cycle-{}", n), src: s, expect: None, debug_too: true, must_fail: false });
        }
        if n <= 64 || long {
            // a cycle that runs through parent links: the leaf's ancestor holds the leaf in a field
            let s = format!(
                "function mk(p) -> object extends p begin let link = null end; let root = mk(null); let cur = root; let i = 1; while i < {n} do begin cur <- mk(cur); i <- i + 1 end; root.link <- cur; print(\"built\\n\"); print(\"~\\n\", cur); print(\"after\\n\")",
                n = n
            );
            v.push(Shape { name: format!("parent-cycle-{}", n), src: s, expect: None, debug_too: n <= 4 || long, must_fail: false });
        }
        if n <= 8 {
            // the back edge sits in an array that is the ancestor at the end of the chain
            let s = format!(
                "function mk(p) -> object extends p begin end; let arr = array(2, 0); let cur = mk(arr); let i = 1; while i < {n} do begin cur <- mk(cur); i <- i + 1 end; arr[1] <- cur; print(\"built\\n\"); print(\"~\\n\", cur); print(\"after\\n\")",
                n = n
            );
            v.push(Shape { name: format!("array-parent-cycle-{}", n), src: s, expect: None, debug_too: true, must_fail: false });
        }
        if n <= 64 || long {
            let s = format!(
                "function mk() -> object begin let next = null end; let first = mk(); let cur = first; let i = 1; while i < {n} do begin let nx = mk(); let box = array(2, 7); box[1] <- nx; cur.next <- box; cur <- nx; i <- i + 1 end; cur.next <- array(1, first); print(\"built\\n\"); print(\"~\\n\", first); print(\"after\\n\")",
                n = n
            );
            v.push(Shape { name: format!("mixed-cycle-{}", n), src: s, expect: None, debug_too: n <= 4 || long, must_fail: false });
        }
    }
    v.push(Shape {
        name: "two-objects-pointing-at-each-other".into(),
        src: "let a = object begin let o = null end; let b = object begin let o = a end; a.o <- b; print(\"~ ~\\n\", a, b)".into(),
        expect: None,
        debug_too: true,
        must_fail: false,
    });
    v.push(Shape { name: "self-loop-array".into(), src: "let a = array(3, 0); a[1] <- a; print(\"~\\n\", a)".into(), expect: None, debug_too: true, must_fail: false });
    v.push(Shape {
        name: "cycle-not-printed-is-harmless".into(),
        src: "let a = array(1, null); a[0] <- a; print(\"~\\n\", null == a[0][0][0]); print(\"ok\\n\")".into(),
        expect: Some("false\nok\n".into()),
        debug_too: true,
        must_fail: false,
    });
    v.push(Shape {
        name: "shared-substructure-is-not-a-cycle".into(),
        src: "let s = array(1, 5); let o = object begin let x = s; let y = s end; let a = array(2, s); print(\"~ ~\\n\", o, a)".into(),
        expect: Some("object(x=[5], y=[5]) [[5], [5]]\n".into()),
        debug_too: true,
        must_fail: false,
    });
    // arity faults that are off by exactly the width of the arity byte (and twice that): a count
    // that is stored narrower than it is checked turns these into calls that pass the check
    for extra in [256usize, 512] {
        let args = |n: usize| (0..n).map(|i| (i % 7).to_string()).collect::<Vec<_>>().join(", ");
        let progs: Vec<(&str, String)> = vec![
            ("function-0-params", format!("function f() -> 1; print(\"before\\n\"); f({}); print(\"after\\n\")", args(extra))),
            ("function-1-param", format!("function f(x) -> x; print(\"before\\n\"); f({}); print(\"after\\n\")", args(extra + 1))),
            ("print-0-placeholders", format!("print(\"before\\n\"); print(\"none\\n\", {}); print(\"after\\n\")", args(extra))),
            ("print-1-placeholder", format!("print(\"before\\n\"); print(\"~\\n\", {}); print(\"after\\n\")", args(extra + 1))),
            ("method-0-params", format!("let o = object begin function m() -> 1 end; print(\"before\\n\"); o.m({}); print(\"after\\n\")", args(extra))),
            ("method-1-param", format!("let o = object begin function m(x) -> x end; print(\"before\\n\"); o.m({}); print(\"after\\n\")", args(extra + 1))),
            ("builtin-add", format!("let i = 1; print(\"before\\n\"); i.add({}); print(\"after\\n\")", args(extra + 1))),
            ("array-get", format!("let a = array(3, 0); print(\"before\\n\"); a.get({}); print(\"after\\n\")", args(extra + 1))),
            ("array-set", format!("let a = array(3, 0); print(\"before\\n\"); a.set({}); print(\"after\\n\")", args(extra + 2))),
            ("null-eq", format!("print(\"before\\n\"); null.eq({}); print(\"after\\n\")", args(extra + 1))),
        ];
        for (name, src) in progs {
            v.push(Shape { name: format!("arity-off-by-{}-{}", extra, name), src, expect: None, debug_too: true, must_fail: true });
        }
    }
    // a fault at the bottom of 10^5 live calls (and at 10^3, 3*10^4): reporting it must not need
    // native stack in proportion to the FML call depth
    for depth in [1000usize, 30_000, 100_000] {
        let faults: Vec<(&str, &str)> = vec![
            ("unknown-variable", "nosuchvariable"),
            ("unknown-method", "1.nosuchmethod(2)"),
            ("unknown-function", "nosuchfunction(1)"),
            ("wrong-arity", "down()"),
            ("index-out-of-range", "array(1, 0)[5]"),
            ("int-plus-bool", "1 + true"),
            ("print-mismatch", "print(\"~ ~\", 1)"),
            ("division-by-zero", "1 / 0"),
        ];
        for (name, fault) in faults {
            let src = format!("function down(n) -> if n == 0 then {} else down(n - 1) + 1; print(\"before\\n\"); print(\"~\\n\", down({})); print(\"after\\n\")", fault, depth);
            v.push(Shape { name: format!("fault-{}-at-call-depth-{}", name, depth), src, expect: None, debug_too: true, must_fail: true });
        }
    }
    // acyclic chains through array elements, fields and parent links
    for n in [10usize, 100, 1000] {
        let mut open = String::new();
        for _ in 0..n {
            open.push('[');
        }
        let close: String = std::iter::repeat(']').take(n).collect();
        v.push(Shape {
            name: format!("array-chain-{}", n),
            src: format!("let cur = 0; let i = 0; while i < {n} do begin cur <- array(1, cur); i <- i + 1 end; print(\"~\\n\", cur)", n = n),
            expect: Some(format!("{}0{}\n", open, close)),
            debug_too: true,
            must_fail: false,
        });
        let mut exp = String::from("0");
        for _ in 0..n {
            exp = format!("object(f={})", exp);
        }
        v.push(Shape {
            name: format!("field-chain-{}", n),
            src: format!("function mk(v) -> object begin let f = v end; let cur = 0; let i = 0; while i < {n} do begin cur <- mk(cur); i <- i + 1 end; print(\"~\\n\", cur)", n = n),
            expect: Some(format!("{}\n", exp)),
            debug_too: true,
            must_fail: false,
        });
        let mut exp = String::from("object()");
        for _ in 0..n {
            exp = format!("object(..={})", exp);
        }
        v.push(Shape {
            name: format!("parent-chain-{}", n),
            src: format!(
                "function mk(p) -> object extends p begin end; let cur = object begin function deep(x) -> x + 1 end; let i = 0; while i < {n} do begin cur <- mk(cur); i <- i + 1 end; print(\"~\\n\", cur.deep(41)); print(\"~\\n\", cur)",
                n = n
            ),
            expect: Some(format!("42\n{}\n", exp)),
            debug_too: true,
            must_fail: false,
        });
    }
    // FML call depth
    for n in [10u32, 1000, 100_000] {
        v.push(Shape {
            name: format!("recursion-depth-{}", n),
            src: format!("function r(n) -> if n == 0 then 0 else 1 + r(n - 1); print(\"~\\n\", r({}))", n),
            expect: Some(format!("{}\n", n)),
            debug_too: true,
            must_fail: false,
        });
        v.push(Shape {
            name: format!("method-recursion-depth-{}", n),
            src: format!("let o = object begin function r(n) -> if n == 0 then 0 else 1 + this.r(n - 1) end; print(\"~\\n\", o.r({}))", n),
            expect: Some(format!("{}\n", n)),
            debug_too: true,
            must_fail: false,
        });
    }
    // source nesting depth of each nestable construct
    for n in [50usize, 100, 150, 200] {
        let debug_ok = n <= 150;
        let rep = |a: &str, mid: &str, b: &str| -> String { format!("{}{}{}", a.repeat(n), mid, b.repeat(n)) };
        v.push(Shape { name: format!("nest-parens-{}", n), src: format!("print(\"~\\n\", {})", rep("(", "1", ")")), expect: Some("1\n".into()), debug_too: debug_ok, must_fail: false });
        v.push(Shape { name: format!("nest-blocks-{}", n), src: format!("print(\"~\\n\", {})", rep("begin ", "1", " end")), expect: Some("1\n".into()), debug_too: debug_ok, must_fail: false });
        v.push(Shape {
            name: format!("nest-operators-{}", n),
            src: format!("print(\"~\\n\", {})", rep("(1 + ", "0", ")")),
            expect: Some(format!("{}\n", n)),
            debug_too: debug_ok,
            must_fail: false,
        });
        v.push(Shape {
            name: format!("nest-calls-{}", n),
            src: format!("function id(x) -> x; print(\"~\\n\", {})", rep("id(", "7", ")")),
            expect: Some("7\n".into()),
            debug_too: debug_ok,
            must_fail: false,
        });
        v.push(Shape {
            name: format!("nest-arrays-{}", n),
            src: format!("let a = {}; print(\"ok\\n\")", rep("array(1, ", "0", ")")),
            expect: Some("ok\n".into()),
            debug_too: debug_ok,
            must_fail: false,
        });
        v.push(Shape {
            name: format!("nest-conditionals-{}", n),
            src: format!("print(\"~\\n\", {})", rep("if true then ", "3", " else 4")),
            expect: Some("3\n".into()),
            debug_too: debug_ok,
            must_fail: false,
        });
        v.push(Shape {
            name: format!("nest-loops-{}", n),
            src: format!("{}print(\"never\\n\"); print(\"ok\\n\")", "while false do ".repeat(n)),
            expect: Some("ok\n".into()),
            debug_too: debug_ok,
            must_fail: false,
        });
        v.push(Shape {
            name: format!("nest-objects-{}", n),
            src: format!("let o = {}; print(\"ok\\n\")", rep("object extends ", "null", " begin end")),
            expect: Some("ok\n".into()),
            debug_too: debug_ok,
            must_fail: false,
        });
    }
    v
}

fn judge_shape(s: &Shape, run: &mut Runner, ctx: &mut Ctx) -> Vec<Violation> {
    let mut out = vec![];
    for debug in [false, true] {
        if debug && !s.debug_too {
            continue;
        }
        ctx.eval();
        ctx.label(if s.must_fail { "shape:fault-at-width" } else if s.expect.is_some() { "shape:acyclic-or-deep" } else { "shape:cyclic" });
        let o = match run.run_source(s.src.as_bytes(), debug) {
            Ok(o) => o,
            Err(e) => {
                out.push(Violation::new("harness-error", format!("cannot run fml: {}", e), json!({})));
                return out;
            }
        };
        let bin = if debug { "debug" } else { "release" };
        let case = json!({"shape": s.name, "source": s.src, "binary": bin});
        let v = if let Status::Signal(sig) = o.status {
            Some(
                Violation::new("native-crash", format!("shape {} kills fml ({}) with signal {}; stdout before the crash {:?}", s.name, bin, sig, o.out_str().chars().take(80).collect::<String>()), case)
                    .with("what", "heap-shape")
                    .with("shape_family", s.name.rsplitn(2, '-').last().unwrap_or("").to_string()),
            )
        } else if let Some(exp) = &s.expect {
            if o.status.success() && &o.out_str() == exp && o.stderr.is_empty() {
                None
            } else {
                Some(
                    Violation::new(
                        "shape-wrong-outcome",
                        format!(
                            "shape {} ({}): status {:?}, stdout {:?} (expected {:?}), stderr {:?}",
                            s.name,
                            bin,
                            o.status,
                            o.out_str().chars().take(200).collect::<String>(),
                            exp.chars().take(200).collect::<String>(),
                            o.err_str().chars().take(200).collect::<String>()
                        ),
                        case,
                    )
                    .with("what", "heap-shape"),
                )
            }
        } else if s.must_fail {
            // refused before running or stopped at the fault: either way no success, nothing after
            // the fault, a diagnostic
            let so = o.out_str();
            if o.status.success() || !(so.is_empty() || so == "before\n") || o.stderr.is_empty() {
                Some(
                    Violation::new("fault-not-caught", format!("shape {} ({}): status {:?}, stdout {:?}, stderr {:?}", s.name, bin, o.status, so.chars().take(200).collect::<String>(), o.err_str().chars().take(200).collect::<String>()), case)
                        .with("what", "fault-at-width"),
                )
            } else {
                ctx.label("fault-at-width:clean-failure");
                None
            }
        } else {
            // cyclic: any clean outcome; if it fails, nothing after the fault may have run
            if !o.status.success() && (o.out_str().contains("after") || o.stderr.is_empty()) {
                Some(Violation::new("failure-not-clean", format!("shape {} ({}): {:?} stdout {:?}", s.name, bin, o.status, o.out_str()), case).with("what", "heap-shape"))
            } else {
                ctx.label(if o.status.success() { "cyclic:printed" } else { "cyclic:clean-failure" });
                None
            }
        };
        match v {
            Some(v) => {
                if let Err(v) = ctx.settle(v) {
                    out.push(v);
                }
            }
            None => {
                ctx.nontrivial(format!("{}|{}", s.name, bin).as_bytes());
                if s.name.ends_with("-3") || s.name.ends_with("-100") {
                    ctx.sample(s.src.len(), || json!({"shape": s.name, "source": s.src.chars().take(400).collect::<String>(), "exit": format!("{:?}", o.status)}));
                }
            }
        }
    }
    out
}

/// nesting of brackets / block keywords in a source text (cheap upper estimate)
pub fn nesting_estimate(src: &str) -> usize {
    let mut depth = 0usize;
    let mut max = 0usize;
    let mut word = String::new();
    let mut opens = 0usize;
    for c in src.chars().chain(std::iter::once(' ')) {
        if c.is_ascii_alphanumeric() || c == '_' {
            word.push(c);
            continue;
        }
        match word.as_str() {
            "begin" | "if" | "while" | "array" | "object" | "let" | "function" | "print" => opens += 1,
            "end" => depth = depth.saturating_sub(1),
            _ => {}
        }
        if matches!(word.as_str(), "begin") {
            depth += 1;
        }
        word.clear();
        match c {
            '(' | '[' => depth += 1,
            ')' | ']' => depth = depth.saturating_sub(1),
            _ => {}
        }
        max = max.max(depth);
    }
    // prefix constructs (if/while/let/array...) nest without brackets: count them as well
    max + opens
}

/// Inputs the property does not speak about: nesting beyond its bound (200; 150 by the coarse
/// estimate above), and integer literals large enough to turn `array(n, ..)` or a loop bound into
/// memory or time exhaustion (the kernel's OOM killer is not a crash of the toolchain).
pub fn outside_claim(src: &str) -> bool {
    if nesting_estimate(src) > 150 {
        return true;
    }
    let mut run = 0;
    for c in src.chars() {
        if c.is_ascii_digit() {
            run += 1;
            if run > 5 {
                return true;
            }
        } else {
            run = 0;
        }
    }
    false
}

/// One input of the `source` fuzz target: everything in-process; the only "oracle" here is
/// that the process survives (see fuzz_targets/source.rs).
pub fn fuzz_one_source(data: &[u8]) {
    let src = match std::str::from_utf8(data) {
        Ok(s) => s,
        Err(_) => return,
    };
    if outside_claim(src) {
        return;
    }
    if let Ok(ast) = fmlrun::parse(src) {
        if let Ok(p) = fmlrun::compile(&ast) {
            if let Ok(bytes) = fmlrun::serialize(&p) {
                if let Ok(loaded) = fmlrun::load(&bytes) {
                    let _ = fmlrun::run_stepped(&loaded, 20_000);
                    let _ = fmlrun::disassemble(&loaded);
                }
            }
        }
    }
}

impl Property for C10 {
    fn id(&self) -> &'static str {
        "C10"
    }
    fn rule(&self) -> String {
        "cases, all on the real binaries (release; debug for a sample): (a) base programs from the typed generator that succeed per the reference semantics, with a marker print before every statement of every statement list (top level, blocks, function, method and loop bodies); one fault of each of 41 classes injected at every statement position (thinned to a bound per base program, counts reported); oracle = reference semantics: stdout exactly the output up to the fault, non-zero non-signal exit, stderr non-empty; un-injected base: exit 0, empty stderr, exact stdout; (b) token-level mutations of rendered programs (delete/duplicate/swap/insert tokens, unbalanced brackets, unterminated string/comment, bad escape, out-of-range literal, stray bytes incl. invalid UTF-8): rejected by the in-process parser => exit non-zero, no signal, empty stdout, diagnostic; (c) heap cycles of every length 1..64 (+100, 1000; thorough 10^4) through arrays, fields and both, acyclic chains of 10/100/1000 links through elements, fields and parents (print and dispatch, exact output), FML recursion depth 10/10^3/10^5 (functions and methods), source nesting 50/100/150/200 of 8 constructs: never a signal. non-trivial: the injected fault is reached after >=1 marker, or the source is rejected, or a shape case; distinct by source".into()
    }
    fn assumptions(&self) -> Vec<String> {
        vec![
            "exit status is compared only as zero / non-zero / signal, stderr only as empty / non-empty".into(),
            "huge allocations are outside the stated quantifier and are not generated".into(),
            "debug binaries are exercised up to source nesting 150 (their native stack overflows near 400)".into(),
        ]
    }
    fn random_cases(&self, tier: Tier) -> u64 {
        tier.pick(64, 1280)
    }
    fn max_tape(&self) -> usize {
        500
    }
    fn max_shrink_iters(&self) -> u32 {
        0
    }
    fn fuzzable(&self) -> bool {
        true
    }
    fn fuzz_target(&self) -> &'static str {
        "source"
    }
    fn fuzz_artifact_case(&self, bytes: &[u8]) -> Value {
        json!({"source_bytes": hex(bytes)})
    }
    fn fixed_parts(&self, ctx: &mut Ctx) -> Vec<Violation> {
        let mut out = vec![];
        let mut run = Runner::new();
        for (i, s) in shapes(ctx.tier).iter().enumerate() {
            if !ctx.shard_mine(i) {
                continue;
            }
            out.extend(judge_shape(s, &mut run, ctx));
            if out.len() > 12 {
                break;
            }
        }
        out
    }
    fn judge_tape(&self, tape: &[u8], ctx: &mut Ctx) -> Judged {
        thread_local! {
            static RUN: std::cell::RefCell<Option<Runner>> = std::cell::RefCell::new(None);
        }
        RUN.with(|r| {
            let mut r = r.borrow_mut();
            if r.is_none() {
                *r = Some(Runner::new());
            }
            let run = r.as_mut().unwrap();
            // three of four tapes drive fault injection, one drives source mutation
            if tape.first().copied().unwrap_or(0) % 4 == 3 {
                malformed_campaign(&tape[1..], ctx, run)
            } else {
                injection_campaign(if tape.is_empty() { tape } else { &tape[1..] }, ctx, run)
            }
        })
    }
    fn replay(&self, case: &Value, ctx: &mut Ctx) -> Judged {
        let mut run = Runner::new();
        if let Some(name) = case["shape"].as_str() {
            let src = case["source"].as_str().unwrap_or("").to_string();
            // re-derive the expectation from the catalogue when the shape is a listed one
            let found = shapes(Tier::Thorough).into_iter().find(|s| s.name == name);
            let s = found.unwrap_or(Shape { name: name.to_string(), src, expect: None, debug_too: true, must_fail: false });
            let vs = judge_shape(&s, &mut run, ctx);
            return match vs.into_iter().next() {
                Some(v) => Err(v),
                None => Ok(()),
            };
        }
        if let Some(h) = case["source_bytes"].as_str() {
            let bytes = crate::tape::unhex(h).unwrap_or_default();
            if outside_claim(&String::from_utf8_lossy(&bytes)) {
                return Ok(()); // deeper than the stated nesting bound, or sized to exhaust memory
            }
            let o = run.run_source(&bytes, false).map_err(|e| Violation::new("harness-error", e.to_string(), json!({})))?;
            if let Status::Signal(s) = o.status {
                return Err(Violation::new("native-crash", format!("signal {}", s), case.clone()).with("what", "malformed-source"));
            }
            let accepted = std::str::from_utf8(&bytes).map(|s| fmlrun::parse(s).is_ok()).unwrap_or(false);
            if !accepted && (o.status.success() || !o.stdout.is_empty() || o.stderr.is_empty()) {
                return Err(Violation::new("invalid-source-not-rejected-cleanly", format!("{:?}", o.status), case.clone()).with("what", "malformed-source"));
            }
            return Ok(());
        }
        if case.get("ir").is_some() || case.get("source").is_some() {
            let prog = crate::props::c01::prog_from_case(case).map_err(|e| Violation::new("harness-error", e, case.clone()))?;
            let r = refsem::run(&prog, refsem::DEFAULT_FUEL);
            let c = case.clone();
            judge_cli(&prog, &r, &mut run, false, ctx, &move || c.clone(), "replayed program")?;
            let c = case.clone();
            return judge_cli(&prog, &r, &mut run, true, ctx, &move || c.clone(), "replayed program");
        }
        if let Some(t) = case["tape"].as_str() {
            if let Some(bytes) = crate::tape::unhex(t) {
                return injection_campaign(&bytes, ctx, &mut run);
            }
        }
        Err(Violation::new("harness-error", "unusable replay case", case.clone()))
    }
}
