//! C03 — serialize and deserialize are mutually inverse (round trip,
//! idempotence, behaviour), over compiler outputs and directly built programs.

use crate::bc::model::Model;
use crate::bc::project::project;
use crate::bytecode::program::Program;
use crate::fmlrun;
use crate::gen::model::{self as gm, ModelOpts};
use crate::gen::prog::{generate, Profile};
use crate::harness::*;
use crate::render;
use crate::tape::{hex, Tape};
use serde_json::{json, Value};

pub struct C03;

fn has_interesting(m: &Model) -> bool {
    use crate::bc::model::Const;
    let methods = m.consts.iter().filter(|c| matches!(c, Const::Method { .. })).count();
    let s = m.consts.iter().any(|c| match c {
        Const::Str(s) => s.is_empty() || !s.is_ascii(),
        Const::Int(i) => *i == i32::MIN || *i == i32::MAX,
        Const::Class(v) => v.len() >= 2,
        _ => false,
    });
    methods >= 2 && s
}

/// Round trip of one in-memory program `p`.
pub fn round_trip(p: &Program, run: bool, fuel: u64, case: &dyn Fn() -> Value, ctx: &mut Ctx, origin: &str) -> Judged {
    let proj0 = match project(p) {
        Ok(x) => x,
        Err(e) => return ctx.settle(Violation::new("projection-failed", e, case())),
    };
    let b1 = match fmlrun::serialize(p) {
        Ok(b) => b,
        Err(e) => return ctx.settle(Violation::new("serialize-failed", e, case()).with("origin", origin)),
    };
    let p2 = match fmlrun::load(&b1) {
        Ok(p) => p,
        Err(e) => return ctx.settle(Violation::new("load-failed", format!("FML cannot load what it wrote: {}", e), case()).with("origin", origin)),
    };
    let proj1 = match project(&p2) {
        Ok(x) => x,
        Err(e) => return ctx.settle(Violation::new("projection-failed", format!("after load: {}", e), case())),
    };
    if proj0.model != proj1.model {
        return ctx.settle(
            Violation::new("round-trip-content", format!("program differs after save/load:\n{}", diff_models(&proj0.model, &proj1.model)), case())
                .with("origin", origin),
        );
    }
    let b2 = match fmlrun::serialize(&p2) {
        Ok(b) => b,
        Err(e) => return ctx.settle(Violation::new("serialize-failed", format!("second serialization: {}", e), case())),
    };
    if b1 != b2 {
        return ctx.settle(
            Violation::new("round-trip-bytes", format!("second serialization differs ({} vs {} bytes, first difference at {:?})", b1.len(), b2.len(), first_diff(&b1, &b2)), case())
                .with("origin", origin),
        );
    }
    if run {
        let r1 = fmlrun::run_stepped(p, fuel);
        let r2 = fmlrun::run_stepped(&p2, fuel);
        if r1.out != r2.out || r1.exec.class() != r2.exec.class() {
            return ctx.settle(
                Violation::new(
                    "round-trip-behaviour",
                    format!("behaviour differs after save/load:\nbefore {:?} {:?}\nafter  {:?} {:?}", r1.exec, r1.out, r2.exec, r2.out),
                    case(),
                )
                .with("origin", origin),
            );
        }
        ctx.label(&format!("run:{}", r1.exec.class()));
    }
    if has_interesting(&proj0.model) {
        ctx.nontrivial(&b1);
    }
    Ok(())
}

pub fn first_diff(a: &[u8], b: &[u8]) -> Option<usize> {
    a.iter().zip(b.iter()).position(|(x, y)| x != y).or(if a.len() != b.len() { Some(a.len().min(b.len())) } else { None })
}

pub fn diff_models(a: &Model, b: &Model) -> String {
    let mut s = String::new();
    if a.consts.len() != b.consts.len() {
        s.push_str(&format!("constant count {} vs {}\n", a.consts.len(), b.consts.len()));
    }
    for (i, (x, y)) in a.consts.iter().zip(b.consts.iter()).enumerate() {
        if x != y {
            let xs = format!("{:?}", x);
            let ys = format!("{:?}", y);
            s.push_str(&format!("constant #{}: {} vs {}\n", i, &xs[..xs.len().min(300)], &ys[..ys.len().min(300)]));
            break;
        }
    }
    if a.globals != b.globals {
        s.push_str(&format!("globals {:?} vs {:?}\n", a.globals, b.globals));
    }
    if a.entry != b.entry {
        s.push_str(&format!("entry {} vs {}\n", a.entry, b.entry));
    }
    s
}

pub fn judge_model(m: &Model, ctx: &mut Ctx, tape: &[u8]) -> Judged {
    ctx.eval();
    let case = || json!({"tape": hex(tape), "domain": "B", "model_summary": summary(m)});
    let run = gm::safe_to_run(m);
    if !run {
        ctx.exclude("behaviour-run-skipped:large-array-possible");
    }
    // via FML's loader from independently written bytes
    let bytes = crate::bc::writer::write(m);
    match fmlrun::load(&bytes) {
        Ok(p) => round_trip(&p, run, 3000, &case, ctx, "B/loaded")?,
        Err(e) => return ctx.settle(Violation::new("load-failed", format!("FML cannot load a structurally valid file: {}", e), case()).with("origin", "B/loaded")),
    }
    // via FML's constructors, natural and reversed code layout
    for rev in &[false, true] {
        match gm::build_program(m, *rev) {
            Ok(p) => {
                // with a reversed layout the behaviour is layout-independent only if no
                // method can fall off its end
                let run_here = run && (!*rev || gm::no_fallthrough(m));
                if *rev && run && !run_here {
                    ctx.exclude("behaviour-run-skipped:fallthrough-depends-on-layout");
                }
                round_trip(&p, run_here, 3000, &case, ctx, if *rev { "B/built-reversed" } else { "B/built" })?
            }
            Err(e) => return ctx.settle(Violation::new("build-failed", e, case())),
        }
    }
    // the statement's own observation point: `fml execute FILE` on the saved image must behave
    // like the in-process run of the loaded program (sampled; preferred for files > 8 KiB,
    // which exercise the buffered file reader of the command line)
    if run && (tape_sample(tape, ctx.tier.pick(200, 80)) || (bytes.len() > 8192 && tape_sample(tape, 3))) {
        if let Ok(p) = fmlrun::load(&bytes) {
            let inproc = fmlrun::run_stepped(&p, 3000);
            if !matches!(inproc.exec, fmlrun::Exec::Runaway) {
                let dir = std::path::PathBuf::from(std::env::var("FMLV_WORK").unwrap_or_else(|_| "/verif/.work".into())).join("C03-scratch");
                let _ = std::fs::create_dir_all(&dir);
                let f = dir.join(format!("img-{}.bc", std::process::id()));
                if std::fs::write(&f, &bytes).is_ok() {
                    if let Ok(o) = crate::cli::run_fml(&crate::cli::fml_release(), &["execute", f.to_str().unwrap()]) {
                        ctx.label(if bytes.len() > 8192 { "cli-execute:file>8KiB" } else { "cli-execute" });
                        let same = o.out_str() == inproc.out && o.status.success() == inproc.exec.is_ok() && !matches!(o.status, crate::cli::Status::Signal(_));
                        if !same {
                            let _ = std::fs::remove_file(&f);
                            return ctx.settle(
                                Violation::new(
                                    "saved-file-behaves-differently",
                                    format!("`fml execute` on the saved image: {:?} {:?} {}\nin-process run of the same image: {:?} {:?}", o.status, o.out_str().chars().take(200).collect::<String>(), o.err_str().chars().take(200).collect::<String>(), inproc.exec, inproc.out.chars().take(200).collect::<String>()),
                                    case(),
                                )
                                .with("origin", "cli"),
                            );
                        }
                    }
                    let _ = std::fs::remove_file(&f);
                }
            }
        }
    }
    ctx.label("domain:B");
    ctx.sample(bytes.len(), || json!({"domain": "B", "summary": summary(m), "bytes_hex_prefix": hex(&bytes[..bytes.len().min(96)])}));
    Ok(())
}

pub fn summary(m: &Model) -> Value {
    use crate::bc::model::Const;
    let mut kinds = std::collections::BTreeMap::new();
    for c in &m.consts {
        *kinds.entry(crate::bc::validate::kind(c)).or_insert(0u32) += 1;
    }
    let maxm = m.consts.iter().map(|c| if let Const::Method { code, .. } = c { code.len() } else { 0 }).max().unwrap_or(0);
    json!({"constants": m.consts.len(), "kinds": kinds, "globals": m.globals.len(), "entry": m.entry, "longest_method": maxm})
}

impl Property for C03 {
    fn id(&self) -> &'static str {
        "C03"
    }
    fn fuzzable(&self) -> bool {
        true
    }
    fn rule(&self) -> String {
        "cases: even tapes -> domain A (programs from the typed generator, compiled by FML); odd tapes -> domain B (structurally valid models straight from the tape: any constant mix incl. empty/non-ASCII/long strings, extreme integers, empty classes, arbitrary instruction sequences, pools > 256), each turned into an FML Program via from_bytes(own writer) and via Program::from with natural and reversed code layout; the in-repo .bc files are fixed seeds. oracle: project(load(serialize(P))) == project(P), serialize(load(serialize(P))) byte-identical, same output and outcome class when executed under equal fuel. non-trivial: >= 2 methods and (an empty or non-ASCII string, or i32::MIN/MAX, or a class with >= 2 members); distinct by byte image".into()
    }
    fn assumptions(&self) -> Vec<String> {
        vec!["behaviour runs of domain-B programs are skipped (counted) when an `array` instruction could meet an integer constant > 5000 (sandbox memory)".into()]
    }
    fn random_cases(&self, tier: Tier) -> u64 {
        tier.pick(240_000, 6_000_000)
    }
    fn max_tape(&self) -> usize {
        900
    }
    fn fixed_parts(&self, ctx: &mut Ctx) -> Vec<Violation> {
        let mut out = vec![];
        for (i, f) in repo_bc_files().iter().enumerate() {
            if !ctx.shard_mine(i) {
                continue;
            }
            let bytes = match std::fs::read(f) {
                Ok(b) => b,
                Err(_) => continue,
            };
            ctx.eval();
            ctx.label("repo-bc-file");
            let case = || json!({"file": f.to_string_lossy(), "bytes": hex(&bytes)});
            match fmlrun::load(&bytes) {
                Ok(p) => {
                    if let Err(mut v) = round_trip(&p, true, 2_000_000, &case, ctx, "repo-bc") {
                        v.detail = format!("[{}] {}", f.display(), v.detail);
                        out.push(v);
                    }
                }
                Err(_) => ctx.exclude("repo-bc-file-not-loadable"),
            }
        }
        // compiler outputs at the widths of the format (see gen/limits.rs): whatever the compiler
        // and the serializer accept must come back unchanged; a refusal is not a round trip
        let mut limit_programs = crate::gen::limits::programs();
        limit_programs.extend(crate::gen::limits::huge_programs());
        for (i, (name, src)) in limit_programs.into_iter().enumerate() {
            if !ctx.shard_mine(i + 11) {
                continue;
            }
            let p = match fmlrun::parse(&src).and_then(|ast| fmlrun::compile(&ast)) {
                Ok(p) => p,
                Err(_) => {
                    ctx.label("limit-program:refused-by-parser-or-compiler");
                    continue;
                }
            };
            if fmlrun::serialize(&p).is_err() {
                ctx.label("limit-program:refused-by-serializer");
                continue;
            }
            ctx.eval();
            ctx.label("limit-program:round-trip");
            let case = || json!({"limit_program": name, "source": src});
            if let Err(mut v) = round_trip(&p, true, 3_000_000, &case, ctx, "limit") {
                v.detail = format!("[limit program {}] {}", name, v.detail);
                out.push(v);
            }
        }
        out
    }
    fn judge_tape(&self, tape: &[u8], ctx: &mut Ctx) -> Judged {
        let mut t = Tape::new(tape);
        if t.byte() % 2 == 0 {
            let g = generate(&mut t, &Profile::full());
            ctx.eval();
            let src = render::text(&g.prog, render::Style::Minimal);
            let case = || json!({"tape": hex(tape), "domain": "A", "source": render::pretty(&g.prog)});
            let ast = fmlrun::parse(&src).map_err(|e| Violation::new("parse-rejected", e, case()))?;
            let p = fmlrun::compile(&ast).map_err(|e| Violation::new("compile-rejected", e, case()))?;
            let r = crate::refsem::run(&g.prog, crate::refsem::DEFAULT_FUEL);
            let fuel = 1000 + 400 * r.steps;
            ctx.label("domain:A");
            round_trip(&p, r.outcome != crate::refsem::Outcome::Fuel, fuel, &case, ctx, "A")?;
            ctx.sample(src.len(), || json!({"domain": "A", "source": render::pretty(&g.prog)}));
            Ok(())
        } else {
            let m = gm::generate(&mut t, &ModelOpts::default());
            judge_model(&m, ctx, tape)
        }
    }
    fn replay(&self, case: &Value, ctx: &mut Ctx) -> Judged {
        if let Some(b) = case["bytes"].as_str() {
            let bytes = crate::tape::unhex(b).unwrap_or_default();
            let c = case.clone();
            return match fmlrun::load(&bytes) {
                Ok(p) => round_trip(&p, true, 2_000_000, &move || c.clone(), ctx, "bytes"),
                Err(e) => Err(Violation::new("load-failed", e, case.clone())),
            };
        }
        if let Some(t) = case["tape"].as_str() {
            if let Some(bytes) = crate::tape::unhex(t) {
                return self.judge_tape(&bytes, ctx);
            }
        }
        if let Some(src) = case["source"].as_str() {
            let c = case.clone();
            let p = match fmlrun::parse(src).and_then(|ast| fmlrun::compile(&ast)) {
                Ok(p) => p,
                Err(_) => return Ok(()),
            };
            if fmlrun::serialize(&p).is_err() {
                return Ok(());
            }
            ctx.eval();
            return round_trip(&p, true, 3_000_000, &move || c.clone(), ctx, "limit");
        }
        Err(Violation::new("harness-error", "unusable replay case", case.clone()))
    }
}

pub fn repo_bc_files() -> Vec<std::path::PathBuf> {
    let mut out = vec![];
    for d in &["tests/misc", "tests/bc_test_1", "tests/bc_test_2", "tests/bc_test_3", "examples"] {
        if let Ok(rd) = std::fs::read_dir(format!("{}/{}", crate::FML_ROOT, d)) {
            for e in rd.flatten() {
                let p = e.path();
                if p.extension().map(|x| x == "bc").unwrap_or(false) {
                    out.push(p);
                }
            }
        }
    }
    out.sort();
    out
}
