//! IR-level delta debugging: after proptest has shrunk the choice tape, the
//! failing program itself is reduced - delete statements, hoist children,
//! replace subexpressions by literals, drop members and arguments - keeping only
//! candidates that stay inside the fragment (fragment::check) and still fail the
//! same way.

use crate::ir::*;

/// all single-step reductions of `e` (the expression itself replaced by something smaller)
fn reductions(e: &E) -> Vec<E> {
    let mut out: Vec<E> = vec![];
    let leaf = matches!(e, E::Int(_) | E::Bool(_) | E::Null | E::Var(_));
    match e {
        E::Block(items) => {
            for i in 0..items.len() {
                let mut v = items.clone();
                v.remove(i);
                out.push(E::Block(v));
            }
            if items.len() == 1 {
                out.push(items[0].clone());
            }
        }
        E::If(c, t, el) => {
            out.push((**t).clone());
            if let Some(x) = el {
                out.push((**x).clone());
                out.push(E::If(c.clone(), t.clone(), None));
            }
            out.push((**c).clone());
        }
        E::While(c, b) => {
            out.push((**b).clone());
            out.push((**c).clone());
        }
        E::Let(_, v) | E::Assign(_, v) => out.push((**v).clone()),
        E::Array(s, v) => {
            out.push((**v).clone());
            out.push((**s).clone());
        }
        E::Index(a, i) => {
            out.push((**a).clone());
            out.push((**i).clone());
        }
        E::IndexSet(a, i, v) => {
            out.push((**v).clone());
            out.push(E::Index(a.clone(), i.clone()));
        }
        E::Object(p, ms) => {
            for i in 0..ms.len() {
                let mut v = ms.clone();
                v.remove(i);
                out.push(E::Object(p.clone(), v));
            }
            if p.is_some() {
                out.push(E::Object(None, ms.clone()));
            }
            if let Some(p) = p {
                out.push((**p).clone());
            }
        }
        E::Field(o, _) => out.push((**o).clone()),
        E::FieldSet(o, _, v) => {
            out.push((**v).clone());
            out.push((**o).clone());
        }
        E::Call(_, args) | E::Print(_, args) => {
            for a in args {
                out.push(a.clone());
            }
            if let E::Print(f, args) = e {
                // drop the last argument together with the last placeholder
                if !args.is_empty() {
                    if let Some(pos) = f.rfind('~') {
                        let mut f2 = f.clone();
                        f2.remove(pos);
                        let mut a2 = args.clone();
                        a2.pop();
                        out.push(E::Print(f2, a2));
                    }
                }
            }
        }
        E::MCall(r, _, args) => {
            out.push((**r).clone());
            for a in args {
                out.push(a.clone());
            }
        }
        E::Bin(_, l, r) => {
            out.push((**l).clone());
            out.push((**r).clone());
        }
        _ => {}
    }
    if !leaf {
        out.push(E::Int(0));
        out.push(E::Null);
        out.push(E::Bool(false));
    }
    out
}

/// number of nodes at which a reduction can be applied, in pre-order
fn count_nodes(e: &E) -> usize {
    let mut n = 1;
    match e {
        E::Object(p, ms) => {
            if let Some(p) = p {
                n += count_nodes(p);
            }
            for m in ms {
                n += match m {
                    Member::Field(_, x) => count_nodes(x),
                    Member::Method(_, _, b) => count_nodes(b),
                };
            }
        }
        other => {
            for c in other.children() {
                n += count_nodes(c);
            }
        }
    }
    n
}

/// rebuild `e` with the node number `target` (pre-order) replaced via `f`
fn replace_at(e: &E, target: usize, counter: &mut usize, f: &dyn Fn(&E) -> Option<E>) -> Option<E> {
    let me = *counter;
    *counter += 1;
    if me == target {
        return f(e);
    }
    macro_rules! kid {
        ($x:expr) => {
            match replace_at($x, target, counter, f) {
                Some(n) => Some(bx(n)),
                None => None,
            }
        };
    }
    // try each child; the first that contains the target yields the rebuilt node
    match e {
        E::Int(_) | E::Bool(_) | E::Null | E::Var(_) => None,
        E::Let(n, v) => kid!(v).map(|v| E::Let(n.clone(), v)),
        E::Assign(n, v) => kid!(v).map(|v| E::Assign(n.clone(), v)),
        E::Block(items) => {
            for (i, x) in items.iter().enumerate() {
                if let Some(nx) = replace_at(x, target, counter, f) {
                    let mut v = items.clone();
                    v[i] = nx;
                    return Some(E::Block(v));
                }
            }
            None
        }
        E::If(c, t, el) => {
            if let Some(n) = kid!(c) {
                return Some(E::If(n, t.clone(), el.clone()));
            }
            if let Some(n) = kid!(t) {
                return Some(E::If(c.clone(), n, el.clone()));
            }
            if let Some(x) = el {
                if let Some(n) = kid!(x) {
                    return Some(E::If(c.clone(), t.clone(), Some(n)));
                }
            }
            None
        }
        E::While(c, b) => {
            if let Some(n) = kid!(c) {
                return Some(E::While(n, b.clone()));
            }
            kid!(b).map(|n| E::While(c.clone(), n))
        }
        E::Array(a, b) => {
            if let Some(n) = kid!(a) {
                return Some(E::Array(n, b.clone()));
            }
            kid!(b).map(|n| E::Array(a.clone(), n))
        }
        E::Index(a, b) => {
            if let Some(n) = kid!(a) {
                return Some(E::Index(n, b.clone()));
            }
            kid!(b).map(|n| E::Index(a.clone(), n))
        }
        E::IndexSet(a, b, c) => {
            if let Some(n) = kid!(a) {
                return Some(E::IndexSet(n, b.clone(), c.clone()));
            }
            if let Some(n) = kid!(b) {
                return Some(E::IndexSet(a.clone(), n, c.clone()));
            }
            kid!(c).map(|n| E::IndexSet(a.clone(), b.clone(), n))
        }
        E::Object(p, ms) => {
            if let Some(pp) = p {
                if let Some(n) = kid!(pp) {
                    return Some(E::Object(Some(n), ms.clone()));
                }
            }
            for (i, m) in ms.iter().enumerate() {
                let inner = match m {
                    Member::Field(_, x) => x,
                    Member::Method(_, _, b) => b,
                };
                if let Some(nx) = replace_at(inner, target, counter, f) {
                    let mut v = ms.clone();
                    v[i] = match m {
                        Member::Field(n, _) => Member::Field(n.clone(), nx),
                        Member::Method(n, ps, _) => Member::Method(n.clone(), ps.clone(), nx),
                    };
                    return Some(E::Object(p.clone(), v));
                }
            }
            None
        }
        E::Field(o, n) => kid!(o).map(|x| E::Field(x, n.clone())),
        E::FieldSet(o, n, v) => {
            if let Some(x) = kid!(o) {
                return Some(E::FieldSet(x, n.clone(), v.clone()));
            }
            kid!(v).map(|x| E::FieldSet(o.clone(), n.clone(), x))
        }
        E::Call(fname, args) => {
            for (i, a) in args.iter().enumerate() {
                if let Some(na) = replace_at(a, target, counter, f) {
                    let mut v = args.clone();
                    v[i] = na;
                    return Some(E::Call(fname.clone(), v));
                }
            }
            None
        }
        E::Print(fmt, args) => {
            for (i, a) in args.iter().enumerate() {
                if let Some(na) = replace_at(a, target, counter, f) {
                    let mut v = args.clone();
                    v[i] = na;
                    return Some(E::Print(fmt.clone(), v));
                }
            }
            None
        }
        E::MCall(r, m, args) => {
            if let Some(x) = kid!(r) {
                return Some(E::MCall(x, m.clone(), args.clone()));
            }
            for (i, a) in args.iter().enumerate() {
                if let Some(na) = replace_at(a, target, counter, f) {
                    let mut v = args.clone();
                    v[i] = na;
                    return Some(E::MCall(r.clone(), m.clone(), v));
                }
            }
            None
        }
        E::Bin(op, l, r) => {
            if let Some(x) = kid!(l) {
                return Some(E::Bin(op.clone(), x, r.clone()));
            }
            kid!(r).map(|x| E::Bin(op.clone(), l.clone(), x))
        }
        E::Fun(n, ps, b) => kid!(b).map(|x| E::Fun(n.clone(), ps.clone(), x)),
    }
}

fn prog_size(p: &Prog) -> usize {
    p.iter().map(count_nodes).sum()
}

/// Greedy reduction. `keep(candidate)` must return true when the candidate is still a
/// valid, failing reproduction. At most `budget` candidates are tried.
pub fn shrink_prog(prog: &Prog, keep: &mut dyn FnMut(&Prog) -> bool, budget: usize) -> Prog {
    let mut best = prog.clone();
    let mut tried = 0usize;
    let mut progress = true;
    while progress && tried < budget {
        progress = false;
        // 1. drop whole top-level items (largest first would be nicer; order is fine)
        let mut i = 0;
        while i < best.len() && tried < budget {
            let mut cand = best.clone();
            cand.remove(i);
            tried += 1;
            if !cand.is_empty() && crate::fragment::check(&cand) && keep(&cand) {
                best = cand;
                progress = true;
            } else {
                i += 1;
            }
        }
        // 2. reductions inside items
        let mut item = 0;
        while item < best.len() && tried < budget {
            let n = count_nodes(&best[item]);
            let mut node = 0;
            let mut advanced = false;
            while node < n && tried < budget {
                // the reductions available at this node
                let mut here: Vec<E> = vec![];
                {
                    let mut counter = 0;
                    let _ = replace_at(&best[item], node, &mut counter, &|x| {
                        // smuggle the list out through a side channel is awkward; recompute below
                        Some(x.clone())
                    });
                }
                // find the node again to enumerate its reductions
                let mut found: Option<E> = None;
                {
                    let mut counter = 0;
                    let cell = std::cell::RefCell::new(None);
                    let _ = replace_at(&best[item], node, &mut counter, &|x| {
                        *cell.borrow_mut() = Some(x.clone());
                        None
                    });
                    if let Some(x) = cell.into_inner() {
                        found = Some(x);
                    }
                }
                if let Some(x) = found {
                    // a top-level function definition itself is only reduced through its body
                    if !(node == 0 && matches!(x, E::Fun(..))) {
                        here = reductions(&x);
                    }
                }
                let before = prog_size(&best);
                let mut accepted = false;
                for r in here {
                    if tried >= budget {
                        break;
                    }
                    let mut counter = 0;
                    let rr = r.clone();
                    if let Some(ne) = replace_at(&best[item], node, &mut counter, &move |_| Some(rr.clone())) {
                        let mut cand = best.clone();
                        cand[item] = ne;
                        if prog_size(&cand) >= before {
                            continue;
                        }
                        tried += 1;
                        if crate::fragment::check(&cand) && keep(&cand) {
                            best = cand;
                            progress = true;
                            accepted = true;
                            advanced = true;
                            break;
                        }
                    }
                }
                if accepted {
                    // the tree changed: restart this item
                    break;
                }
                node += 1;
            }
            if !advanced {
                item += 1;
            }
        }
    }
    best
}
