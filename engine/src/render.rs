//! IR -> FML source text.  Emits tokens (so that C07 can decorate token
//! boundaries and C10 can mutate tokens) in two styles: minimal parentheses
//! (own precedence/position table) and fully parenthesized.

use crate::ir::*;

#[derive(Clone, Copy, PartialEq, Eq, Debug)]
pub enum Style {
    Minimal,
    Full,
}

/// Syntactic category of the text an expression renders to (without wrapping).
#[derive(Clone, Copy, PartialEq, Eq, PartialOrd, Ord, Debug)]
enum Cat {
    /// parenthesized, block, application, array definition, array access, variable, literal
    Accessible,
    /// field chain rooted in an accessible
    FieldChain,
    /// operator expression
    Operation,
    /// let, assignment, conditional, loop, print, object (only in expression positions)
    Expression,
}

fn cat(e: &E) -> Cat {
    match e {
        E::Int(_) | E::Bool(_) | E::Null | E::Var(_) | E::Block(_) | E::Array(..) | E::Index(..)
        | E::Call(..) | E::MCall(..) => Cat::Accessible,
        E::Field(..) => Cat::FieldChain,
        E::Bin(..) => Cat::Operation,
        _ => Cat::Expression,
    }
}

/// Does the rendering of `e` end in a conditional without `else` (so that a
/// following `else` would be captured by it)?
fn ends_open(e: &E) -> bool {
    match e {
        E::If(_, _, None) => true,
        E::If(_, _, Some(x)) => ends_open(x),
        E::While(_, b) => ends_open(b),
        E::Let(_, v) | E::Assign(_, v) | E::FieldSet(_, _, v) | E::IndexSet(_, _, v) => ends_open(v),
        _ => false,
    }
}

pub struct Renderer {
    pub style: Style,
    pub toks: Vec<String>,
    /// C07: redundant parentheses around chosen subexpressions; one byte is
    /// consumed per expression position, >= 200 means "wrap"
    pub extra: Option<Vec<u8>>,
    extra_pos: usize,
    pub extra_used: usize,
}

impl Renderer {
    pub fn new(style: Style) -> Self {
        Renderer { style, toks: vec![], extra: None, extra_pos: 0, extra_used: 0 }
    }
    fn want_extra(&mut self) -> bool {
        if let Some(v) = &self.extra {
            let b = v.get(self.extra_pos).copied().unwrap_or(0);
            self.extra_pos += 1;
            if b >= 200 {
                self.extra_used += 1;
                return true;
            }
        }
        false
    }
    fn t(&mut self, s: &str) {
        self.toks.push(s.to_string());
    }

    pub fn program(&mut self, p: &Prog) {
        for (i, e) in p.iter().enumerate() {
            if i > 0 {
                self.t(";");
            }
            match e {
                E::Fun(name, params, body) => {
                    self.t("function");
                    self.t(name);
                    self.params(params);
                    self.t("->");
                    self.expr(body);
                }
                _ => self.expr(e),
            }
        }
    }

    fn params(&mut self, params: &[String]) {
        self.t("(");
        for (i, p) in params.iter().enumerate() {
            if i > 0 {
                self.t(",");
            }
            self.t(p);
        }
        self.t(")");
    }

    fn args(&mut self, args: &[E]) {
        for (i, a) in args.iter().enumerate() {
            if i > 0 {
                self.t(",");
            }
            self.expr(a);
        }
    }

    fn wrapped(&mut self, e: &E) {
        self.t("(");
        self.raw(e);
        self.t(")");
    }

    /// expression position (`Expression<"open">`)
    pub fn expr(&mut self, e: &E) {
        if self.want_extra() {
            self.t("(");
            self.expr_inner(e);
            self.t(")");
        } else {
            self.expr_inner(e)
        }
    }

    fn expr_inner(&mut self, e: &E) {
        if self.style == Style::Full && !matches!(e, E::Int(_) | E::Bool(_) | E::Null | E::Var(_)) {
            self.wrapped(e)
        } else {
            self.raw(e)
        }
    }

    /// `then` branch of a conditional that has an `else`
    fn closed(&mut self, e: &E) {
        if self.style == Style::Full {
            self.expr(e)
        } else if ends_open(e) {
            self.wrapped(e)
        } else {
            self.raw(e)
        }
    }

    /// operand of a binary operator with precedence `p`; `right` operands need
    /// parentheses also for equal precedence (left associativity)
    fn operand(&mut self, e: &E, p: u8, right: bool) {
        if self.style == Style::Full {
            return self.expr(e);
        }
        match e {
            E::Bin(op, ..) => {
                let q = prec(op);
                if q < p || (right && q == p) {
                    self.wrapped(e)
                } else {
                    self.raw(e)
                }
            }
            _ => {
                if cat(e) <= Cat::FieldChain {
                    self.raw(e)
                } else {
                    self.wrapped(e)
                }
            }
        }
    }

    /// receiver of `.f`, `.m(...)`, `[i]`
    fn receiver(&mut self, e: &E) {
        if self.style == Style::Full {
            return self.expr(e);
        }
        if cat(e) <= Cat::FieldChain {
            self.raw(e)
        } else {
            self.wrapped(e)
        }
    }

    fn raw(&mut self, e: &E) {
        match e {
            E::Int(i) => self.t(&i.to_string()),
            E::Bool(b) => self.t(if *b { "true" } else { "false" }),
            E::Null => self.t("null"),
            E::Var(n) => self.t(n),
            E::Let(n, v) => {
                self.t("let");
                self.t(n);
                self.t("=");
                self.expr(v);
            }
            E::Assign(n, v) => {
                self.t(n);
                self.t("<-");
                self.expr(v);
            }
            E::Block(v) => {
                self.t("begin");
                for (i, x) in v.iter().enumerate() {
                    if i > 0 {
                        self.t(";");
                    }
                    self.expr(x);
                }
                self.t("end");
            }
            E::If(c, t, e) => {
                self.t("if");
                self.expr(c);
                self.t("then");
                match e {
                    Some(e) => {
                        self.closed(t);
                        self.t("else");
                        self.expr(e);
                    }
                    None => self.expr(t),
                }
            }
            E::While(c, b) => {
                self.t("while");
                self.expr(c);
                self.t("do");
                self.expr(b);
            }
            E::Array(s, v) => {
                self.t("array");
                self.t("(");
                self.expr(s);
                self.t(",");
                self.expr(v);
                self.t(")");
            }
            E::Index(a, i) => {
                self.receiver(a);
                self.t("[");
                self.expr(i);
                self.t("]");
            }
            E::IndexSet(a, i, v) => {
                self.receiver(a);
                self.t("[");
                self.expr(i);
                self.t("]");
                self.t("<-");
                self.expr(v);
            }
            E::Object(p, ms) => {
                self.t("object");
                if let Some(p) = p {
                    self.t("extends");
                    self.expr(p);
                }
                self.t("begin");
                for (i, m) in ms.iter().enumerate() {
                    if i > 0 {
                        self.t(";");
                    }
                    match m {
                        Member::Field(n, e) => {
                            self.t("let");
                            self.t(n);
                            self.t("=");
                            self.expr(e);
                        }
                        Member::Method(n, ps, b) => {
                            self.t("function");
                            self.t(n);
                            self.params(ps);
                            self.t("->");
                            self.expr(b);
                        }
                    }
                }
                self.t("end");
            }
            E::Field(o, f) => {
                self.receiver(o);
                self.t(".");
                self.t(f);
            }
            E::FieldSet(o, f, v) => {
                self.receiver(o);
                self.t(".");
                self.t(f);
                self.t("<-");
                self.expr(v);
            }
            E::Call(f, a) => {
                self.t(f);
                self.t("(");
                self.args(a);
                self.t(")");
            }
            E::MCall(r, m, a) => {
                self.receiver(r);
                self.t(".");
                self.t(m);
                self.t("(");
                self.args(a);
                self.t(")");
            }
            E::Bin(op, l, r) => {
                let p = prec(op);
                self.operand(l, p, false);
                self.t(op);
                self.operand(r, p, true);
            }
            E::Print(f, a) => {
                self.t("print");
                self.t("(");
                self.t(&format!("\"{}\"", f));
                for x in a {
                    self.t(",");
                    self.expr(x);
                }
                self.t(")");
            }
            E::Fun(name, params, body) => {
                // only valid at top level; rendered anyway for diagnostics
                self.t("function");
                self.t(name);
                self.params(params);
                self.t("->");
                self.expr(body);
            }
        }
    }
}

pub fn tokens(p: &Prog, style: Style) -> Vec<String> {
    let mut r = Renderer::new(style);
    r.program(p);
    r.toks
}

fn wordish(c: char) -> bool {
    c.is_ascii_alphanumeric() || c == '_'
}

/// May `a` and `b` be glued without changing the token sequence?
pub fn can_glue(a: &str, b: &str) -> bool {
    let la = a.chars().last().unwrap_or(' ');
    let fb = b.chars().next().unwrap_or(' ');
    if a.starts_with('"') || b.starts_with('"') {
        // string literals are self-delimiting; gluing punctuation is fine
        let other = if a.starts_with('"') { fb } else { la };
        return matches!(other, '(' | ')' | ',');
    }
    let closers = |c: char| matches!(c, ')' | ']');
    let safe_punct = |c: char| matches!(c, '(' | ')' | '[' | ']' | ',' | ';' | '.');
    if wordish(la) && wordish(fb) {
        return false;
    }
    if (wordish(la) || closers(la)) && safe_punct(fb) {
        // "1." would still lex as NUMBER DOT; identifiers cannot contain '.'
        return true;
    }
    if matches!(la, '(' | '[' | ',' | ';') && (wordish(fb) || fb == '(' || fb == '-') {
        return true;
    }
    if matches!(la, '(' | '[') && matches!(fb, ')' | ']') {
        return true;
    }
    if la == '.' && wordish(fb) && !fb.is_ascii_digit() {
        return true;
    }
    false
}

/// Compact but unambiguous text: tokens are glued where that is lexically safe
/// and separated by a single space otherwise.
pub fn join(toks: &[String]) -> String {
    let mut s = String::new();
    for (i, t) in toks.iter().enumerate() {
        if i > 0 && !can_glue(&toks[i - 1], t) {
            s.push(' ');
        }
        s.push_str(t);
    }
    s
}

/// All tokens separated by one blank.
pub fn join_spaced(toks: &[String]) -> String {
    toks.join(" ")
}

pub fn source(p: &Prog) -> String {
    pretty(p)
}

/// Human-friendly rendering used for replay files and evidence samples:
/// statements of the top level on separate lines.
pub fn pretty(p: &Prog) -> String {
    let mut out = String::new();
    for (i, e) in p.iter().enumerate() {
        let mut r = Renderer::new(Style::Minimal);
        r.program(&vec![e.clone()]);
        out.push_str(&join(&r.toks));
        if i + 1 < p.len() {
            out.push_str(";\n");
        } else {
            out.push('\n');
        }
    }
    out
}

pub fn text(p: &Prog, style: Style) -> String {
    join(&tokens(p, style))
}
