//! Reference semantics: a definitional big-step interpreter over the IR, written
//! from the README rules and the property statements.  Shares no code with FML.

use crate::ir::*;
use std::collections::BTreeMap;
use std::rc::Rc;

#[derive(Clone, Copy, Debug, PartialEq, Eq)]
pub enum V {
    Null,
    Int(i32),
    Bool(bool),
    Ref(usize),
}

#[derive(Debug)]
pub struct MethodDef {
    pub params: Vec<String>,
    pub body: E,
}

#[derive(Debug)]
pub enum HObj {
    Array(Vec<V>),
    Object { parent: V, fields: Vec<(String, V)>, methods: Vec<(String, Rc<MethodDef>)> },
}

/// Shape of a created heap value (C16): what the size of an allocation may depend on.
#[derive(Clone, Debug, PartialEq, Eq, PartialOrd, Ord, Hash)]
pub enum Shape {
    Array(usize),
    /// field-name lengths and method-name lengths, in declaration order
    Object(Vec<usize>, Vec<usize>),
}

#[derive(Clone, Debug, PartialEq, Eq)]
pub struct Fail {
    pub kind: String,
}

#[derive(Clone, Debug, PartialEq, Eq)]
pub enum Outcome {
    Ok,
    Fail(String),
    /// reference fuel exhausted: the case is discarded, never judged
    Fuel,
}

#[derive(Default, Clone, Debug)]
pub struct Stats {
    pub prints: u32,
    pub loop_iters: u32,
    pub user_calls: u32,
    pub method_calls: u32,
    pub inherited: u32,
    pub array_rw: u32,
    pub field_writes: u32,
    pub shadow_reads: u32,
    pub compound_arrays: u32,
    pub sugar_user: u32,
    pub builtin_via_parent: u32,
    pub max_call_depth: u32,
    /// reads of a heap value through a different kind of location (variable name,
    /// this, field, array element, call result) than the one its last mutation used
    pub alias_observed: u32,
    pub arity_failures: u32,
}

pub struct RunResult {
    pub out: String,
    pub outcome: Outcome,
    pub steps: u64,
    pub allocs: Vec<Shape>,
    pub stats: Stats,
    /// value of the last top-level expression (if Ok)
    pub last: Option<V>,
    /// rendered final value (for diagnostics)
    pub heap_len: usize,
}

struct Frame {
    /// scopes[0] is the function scope; for the top-level frame scopes[0] is unused
    /// (globals live in `Interp::globals`)
    scopes: Vec<Vec<(String, V)>>,
    top: bool,
}

pub struct Interp {
    pub out: String,
    heap: Vec<HObj>,
    globals: BTreeMap<String, V>,
    funs: BTreeMap<String, Rc<MethodDef>>,
    frames: Vec<Frame>,
    steps: u64,
    fuel: u64,
    allocs: Vec<Shape>,
    stats: Stats,
    max_depth: u32,
    pub max_output: usize,
    last_write_via: Vec<u64>,
}

fn via_code(e: &E) -> u64 {
    match e {
        E::Var(n) => 16 + crate::tape::digest(n.as_bytes()) % 1_000_000,
        E::Field(..) => 1,
        E::Index(..) => 2,
        _ => 3,
    }
}

enum Stop {
    Fail(String),
    Fuel,
}

type R = Result<V, Stop>;

fn fail<T>(s: impl Into<String>) -> Result<T, Stop> {
    Err(Stop::Fail(s.into()))
}

pub const DEFAULT_FUEL: u64 = 200_000;

/// Run a program under the reference semantics (on the calling thread; callers
/// that generate deep recursion should use a big-stack thread).
pub fn run(p: &Prog, fuel: u64) -> RunResult {
    let mut it = Interp {
        out: String::new(),
        heap: vec![],
        globals: BTreeMap::new(),
        funs: BTreeMap::new(),
        frames: vec![Frame { scopes: vec![vec![]], top: true }],
        steps: 0,
        fuel,
        allocs: vec![],
        stats: Stats::default(),
        max_depth: 2500,
        max_output: 1 << 20,
        last_write_via: vec![],
    };
    // functions are globals known before execution starts (documented bytecode model)
    let mut dup = false;
    for e in p {
        if let E::Fun(name, params, body) = e {
            let def = Rc::new(MethodDef { params: params.clone(), body: (**body).clone() });
            if it.funs.insert(name.clone(), def).is_some() {
                dup = true;
            }
        }
    }
    let mut last = V::Null;
    let mut outcome = Outcome::Ok;
    if dup {
        outcome = Outcome::Fail("duplicate function".into());
    } else {
        for e in p {
            match it.eval(e) {
                Ok(v) => last = v,
                Err(Stop::Fail(k)) => {
                    outcome = Outcome::Fail(k);
                    break;
                }
                Err(Stop::Fuel) => {
                    outcome = Outcome::Fuel;
                    break;
                }
            }
        }
    }
    RunResult {
        heap_len: it.heap.len(),
        out: it.out,
        last: if outcome == Outcome::Ok { Some(last) } else { None },
        outcome,
        steps: it.steps,
        allocs: it.allocs,
        stats: it.stats,
    }
}

/// Run on a dedicated thread with a large stack.
pub fn run_big(p: &Prog, fuel: u64) -> RunResult {
    let p = p.clone();
    std::thread::Builder::new()
        .stack_size(1 << 30)
        .spawn(move || run(&p, fuel))
        .unwrap()
        .join()
        .unwrap()
}

impl Interp {
    fn tick(&mut self) -> Result<(), Stop> {
        self.steps += 1;
        if self.steps > self.fuel || self.out.len() > self.max_output {
            Err(Stop::Fuel)
        } else {
            Ok(())
        }
    }

    fn lookup(&mut self, name: &str) -> Option<V> {
        let f = self.frames.last().unwrap();
        let lo = if f.top { 1 } else { 0 };
        let mut found: Option<V> = None;
        let mut shadowing = false;
        for s in f.scopes[lo..].iter().rev() {
            if let Some((_, v)) = s.iter().rev().find(|(k, _)| k == name) {
                if found.is_none() {
                    found = Some(*v);
                } else {
                    shadowing = true;
                }
            }
        }
        if found.is_some() {
            if shadowing || self.globals.contains_key(name) {
                self.stats.shadow_reads += 1;
            }
            return found;
        }
        self.globals.get(name).copied()
    }

    fn store(&mut self, name: &str, v: V) -> bool {
        let f = self.frames.last_mut().unwrap();
        let lo = if f.top { 1 } else { 0 };
        for s in f.scopes[lo..].iter_mut().rev() {
            if let Some(slot) = s.iter_mut().rev().find(|(k, _)| k == name) {
                slot.1 = v;
                return true;
            }
        }
        if let Some(g) = self.globals.get_mut(name) {
            *g = v;
            true
        } else {
            false
        }
    }

    fn define(&mut self, name: &str, v: V) {
        let f = self.frames.last_mut().unwrap();
        if f.top && f.scopes.len() == 1 {
            self.globals.insert(name.to_string(), v);
        } else {
            let s = f.scopes.last_mut().unwrap();
            if let Some(slot) = s.iter_mut().find(|(k, _)| k == name) {
                // re-execution of the same `let` (loop body, array initializer)
                slot.1 = v;
            } else {
                s.push((name.to_string(), v));
            }
        }
    }

    fn alloc(&mut self, o: HObj) -> V {
        let shape = match &o {
            HObj::Array(v) => Shape::Array(v.len()),
            HObj::Object { fields, methods, .. } => Shape::Object(
                fields.iter().map(|(n, _)| n.len()).collect(),
                methods.iter().map(|(n, _)| n.len()).collect(),
            ),
        };
        self.allocs.push(shape);
        self.last_write_via.push(0);
        self.heap.push(o);
        V::Ref(self.heap.len() - 1)
    }

    pub fn truthy(v: V) -> bool {
        !matches!(v, V::Null | V::Bool(false))
    }

    fn is_simple_init(e: &E) -> bool {
        matches!(e, E::Int(_) | E::Bool(_) | E::Null | E::Var(_) | E::Field(..))
    }

    fn eval(&mut self, e: &E) -> R {
        self.tick()?;
        match e {
            E::Int(i) => Ok(V::Int(*i)),
            E::Bool(b) => Ok(V::Bool(*b)),
            E::Null => Ok(V::Null),
            E::Var(n) => match self.lookup(n) {
                Some(v) => Ok(v),
                None => fail(format!("unknown variable {}", n)),
            },
            E::Let(n, v) => {
                let v = self.eval(v)?;
                self.define(n, v);
                Ok(v)
            }
            E::Assign(n, v) => {
                let v = self.eval(v)?;
                if self.store(n, v) {
                    Ok(v)
                } else {
                    fail(format!("assignment to unknown variable {}", n))
                }
            }
            E::Block(v) => {
                if v.is_empty() {
                    return Ok(V::Null);
                }
                self.frames.last_mut().unwrap().scopes.push(vec![]);
                let mut last = Ok(V::Null);
                for x in v {
                    last = self.eval(x);
                    if last.is_err() {
                        break;
                    }
                }
                self.frames.last_mut().unwrap().scopes.pop();
                last
            }
            E::If(c, t, e) => {
                let c = self.eval(c)?;
                if Self::truthy(c) {
                    self.eval(t)
                } else {
                    match e {
                        Some(e) => self.eval(e),
                        None => Ok(V::Null),
                    }
                }
            }
            E::While(c, b) => {
                loop {
                    let cv = self.eval(c)?;
                    if !Self::truthy(cv) {
                        break;
                    }
                    self.stats.loop_iters += 1;
                    self.eval(b)?;
                }
                Ok(V::Null)
            }
            E::Array(s, init) => {
                let sv = self.eval(s)?;
                if Self::is_simple_init(init) {
                    let iv = self.eval(init)?;
                    let n = Self::array_size(sv)?;
                    Ok(self.alloc(HObj::Array(vec![iv; n])))
                } else {
                    // size once and first; array created; initializer once per element in index order
                    let n = Self::array_size(sv)?;
                    self.stats.compound_arrays += 1;
                    let a = self.alloc(HObj::Array(vec![V::Null; n]));
                    let idx = match a {
                        V::Ref(i) => i,
                        _ => unreachable!(),
                    };
                    for k in 0..n {
                        self.tick()?;
                        let v = self.eval(init)?;
                        if let HObj::Array(items) = &mut self.heap[idx] {
                            items[k] = v;
                        }
                    }
                    Ok(a)
                }
            }
            E::Index(a, i) => {
                let av = self.eval(a)?;
                let iv = self.eval(i)?;
                self.note_read(av, a);
                self.call_method(av, "get", vec![iv], true)
            }
            E::IndexSet(a, i, v) => {
                let av = self.eval(a)?;
                let iv = self.eval(i)?;
                let vv = self.eval(v)?;
                self.note_write(av, a);
                self.call_method(av, "set", vec![iv, vv], true)
            }
            E::Object(p, ms) => {
                let pv = match p {
                    Some(p) => self.eval(p)?,
                    None => V::Null,
                };
                let mut fields: Vec<(String, V)> = vec![];
                let mut methods: Vec<(String, Rc<MethodDef>)> = vec![];
                let mut dup = false;
                for m in ms {
                    match m {
                        Member::Field(n, e) => {
                            let v = self.eval(e)?;
                            if fields.iter().any(|(k, _)| k == n) {
                                dup = true;
                            }
                            fields.push((n.clone(), v));
                        }
                        Member::Method(n, ps, b) => {
                            if methods.iter().any(|(k, _)| k == n) {
                                dup = true;
                            }
                            methods.push((n.clone(), Rc::new(MethodDef { params: ps.clone(), body: b.clone() })));
                        }
                    }
                }
                if dup {
                    return fail("duplicate member");
                }
                Ok(self.alloc(HObj::Object { parent: pv, fields, methods }))
            }
            E::Field(o, f) => {
                let ov = self.eval(o)?;
                self.note_read(ov, o);
                match ov {
                    V::Ref(i) => match &self.heap[i] {
                        HObj::Object { fields, .. } => match fields.iter().find(|(k, _)| k == f) {
                            Some((_, v)) => Ok(*v),
                            None => fail(format!("no field {}", f)),
                        },
                        HObj::Array(_) => fail("field access on array"),
                    },
                    _ => fail("field access on primitive"),
                }
            }
            E::FieldSet(o, f, v) => {
                let ov = self.eval(o)?;
                let vv = self.eval(v)?;
                self.note_write(ov, o);
                match ov {
                    V::Ref(i) => match &mut self.heap[i] {
                        HObj::Object { fields, .. } => match fields.iter_mut().find(|(k, _)| k == f) {
                            Some(slot) => {
                                slot.1 = vv;
                                self.stats.field_writes += 1;
                                Ok(vv)
                            }
                            None => fail(format!("no field {}", f)),
                        },
                        HObj::Array(_) => fail("field write on array"),
                    },
                    _ => fail("field write on primitive"),
                }
            }
            E::Call(f, args) => {
                let mut avs = Vec::with_capacity(args.len());
                for a in args {
                    avs.push(self.eval(a)?);
                }
                let def = match self.funs.get(f) {
                    Some(d) => d.clone(),
                    None => return fail(format!("unknown function {}", f)),
                };
                if def.params.len() != avs.len() {
                    self.stats.arity_failures += 1;
                    return fail(format!("function {} arity", f));
                }
                self.stats.user_calls += 1;
                let scope: Vec<(String, V)> = def.params.iter().cloned().zip(avs.into_iter()).collect();
                self.invoke(&def, scope)
            }
            E::MCall(r, m, args) => {
                let rv = self.eval(r)?;
                let mut avs = Vec::with_capacity(args.len());
                for a in args {
                    avs.push(self.eval(a)?);
                }
                self.call_method(rv, m, avs, false)
            }
            E::Bin(op, l, r) => {
                let lv = self.eval(l)?;
                let rv = self.eval(r)?;
                self.call_method(lv, op, vec![rv], true)
            }
            E::Print(f, args) => {
                let mut avs = Vec::with_capacity(args.len());
                for a in args {
                    avs.push(self.eval(a)?);
                }
                let mut rendered = Vec::with_capacity(avs.len());
                for v in &avs {
                    rendered.push(self.render(*v, 0)?);
                }
                match format_print(f, &rendered) {
                    Ok(s) => {
                        self.out.push_str(&s);
                        self.stats.prints += 1;
                        Ok(V::Null)
                    }
                    Err(k) => fail(k),
                }
            }
            E::Fun(..) => Ok(V::Null),
        }
    }

    fn note_write(&mut self, v: V, via: &E) {
        if let V::Ref(i) = v {
            self.last_write_via[i] = via_code(via);
        }
    }

    fn note_read(&mut self, v: V, via: &E) {
        if let V::Ref(i) = v {
            let w = self.last_write_via[i];
            if w != 0 && w != via_code(via) {
                self.stats.alias_observed += 1;
            }
        }
    }

    fn array_size(sv: V) -> Result<usize, Stop> {
        match sv {
            V::Int(n) if n >= 0 => Ok(n as usize),
            V::Int(_) => fail("negative array size"),
            _ => fail("non-integer array size"),
        }
    }

    fn invoke(&mut self, def: &Rc<MethodDef>, scope: Vec<(String, V)>) -> R {
        if self.frames.len() as u32 > self.max_depth {
            return Err(Stop::Fuel);
        }
        self.frames.push(Frame { scopes: vec![scope], top: false });
        self.stats.max_call_depth = self.stats.max_call_depth.max(self.frames.len() as u32);
        let r = self.eval(&def.body);
        self.frames.pop();
        r
    }

    /// Dispatch per C14: own methods, then the parent, ...; primitives and arrays
    /// at the end of the chain supply the built-ins.
    fn call_method(&mut self, recv: V, name: &str, args: Vec<V>, sugar: bool) -> R {
        let mut cur = recv;
        let mut hops = 0u32;
        loop {
            self.tick()?;
            match cur {
                V::Ref(i) => {
                    let (found, parent) = match &self.heap[i] {
                        HObj::Array(_) => {
                            if hops > 0 {
                                self.stats.builtin_via_parent += 1;
                            }
                            return self.array_builtin(i, name, args);
                        }
                        HObj::Object { parent, methods, .. } => {
                            (methods.iter().find(|(k, _)| k == name).map(|(_, d)| d.clone()), *parent)
                        }
                    };
                    match found {
                        Some(def) => {
                            if def.params.len() != args.len() {
                                self.stats.arity_failures += 1;
                                return fail(format!("method {} arity", name));
                            }
                            self.stats.method_calls += 1;
                            if hops > 0 {
                                self.stats.inherited += 1;
                            }
                            if sugar {
                                self.stats.sugar_user += 1;
                            }
                            let mut scope: Vec<(String, V)> = vec![("this".to_string(), cur)];
                            scope.extend(def.params.iter().cloned().zip(args.into_iter()));
                            return self.invoke(&def, scope);
                        }
                        None => {
                            if parent == V::Null {
                                return fail(format!("no method {}", name));
                            }
                            cur = parent;
                            hops += 1;
                        }
                    }
                }
                prim => {
                    if hops > 0 {
                        self.stats.builtin_via_parent += 1;
                    }
                    return match builtin(prim, name, &args) {
                        Ok(v) => Ok(v),
                        Err(k) => fail(k),
                    };
                }
            }
        }
    }

    fn array_builtin(&mut self, idx: usize, name: &str, args: Vec<V>) -> R {
        let items = match &mut self.heap[idx] {
            HObj::Array(v) => v,
            _ => unreachable!(),
        };
        match name {
            "get" => {
                if args.len() != 1 {
                    return fail("array get arity");
                }
                match args[0] {
                    V::Int(i) if i >= 0 && (i as usize) < items.len() => {
                        self.stats.array_rw += 1;
                        Ok(items[i as usize])
                    }
                    V::Int(_) => fail("index out of range"),
                    _ => fail("non-integer index"),
                }
            }
            "set" => {
                if args.len() != 2 {
                    return fail("array set arity");
                }
                match args[0] {
                    V::Int(i) if i >= 0 && (i as usize) < items.len() => {
                        items[i as usize] = args[1];
                        self.stats.array_rw += 1;
                        Ok(args[1])
                    }
                    V::Int(_) => fail("index out of range"),
                    _ => fail("non-integer index"),
                }
            }
            _ => fail(format!("no method {} in array", name)),
        }
    }

    /// Canonical value rendering per C15.
    fn render(&mut self, v: V, depth: usize) -> Result<String, Stop> {
        self.tick()?;
        if depth > 5000 {
            return Err(Stop::Fuel);
        }
        Ok(match v {
            V::Null => "null".to_string(),
            V::Int(i) => i.to_string(),
            V::Bool(b) => b.to_string(),
            V::Ref(i) => {
                enum Tmp {
                    A(Vec<V>),
                    O(V, Vec<(String, V)>),
                }
                let tmp = match &self.heap[i] {
                    HObj::Array(items) => Tmp::A(items.clone()),
                    HObj::Object { parent, fields, .. } => Tmp::O(*parent, fields.clone()),
                };
                match tmp {
                    Tmp::A(items) => {
                        let mut parts = Vec::with_capacity(items.len());
                        for x in items {
                            parts.push(self.render(x, depth + 1)?);
                        }
                        format!("[{}]", parts.join(", "))
                    }
                    Tmp::O(parent, mut fields) => {
                        let mut parts = vec![];
                        if parent != V::Null {
                            parts.push(format!("..={}", self.render(parent, depth + 1)?));
                        }
                        fields.sort_by(|a, b| a.0.as_bytes().cmp(b.0.as_bytes()));
                        for (n, x) in fields {
                            parts.push(format!("{}={}", n, self.render(x, depth + 1)?));
                        }
                        format!("object({})", parts.join(", "))
                    }
                }
            }
        })
    }
}

/// Built-in methods of null, integers and booleans (C09), FML symbols and Feeny names.
pub fn builtin(recv: V, name: &str, args: &[V]) -> Result<V, String> {
    if args.len() != 1 {
        return Err(format!("builtin {} arity", name));
    }
    let arg = args[0];
    let canon = match name {
        "add" => "+",
        "sub" => "-",
        "mul" => "*",
        "div" => "/",
        "mod" => "%",
        "le" => "<=",
        "ge" => ">=",
        "lt" => "<",
        "gt" => ">",
        "eq" => "==",
        "neq" => "!=",
        "and" => "&",
        "or" => "|",
        other => other,
    };
    match recv {
        V::Null => match canon {
            "==" => Ok(V::Bool(arg == V::Null)),
            "!=" => Ok(V::Bool(arg != V::Null)),
            _ => Err(format!("no method {} in null", name)),
        },
        V::Int(a) => match (canon, arg) {
            ("==", V::Int(b)) => Ok(V::Bool(a == b)),
            ("!=", V::Int(b)) => Ok(V::Bool(a != b)),
            ("==", _) => Ok(V::Bool(false)),
            ("!=", _) => Ok(V::Bool(true)),
            (op, V::Int(b)) => int_op(op, a, b),
            (op, _) => Err(format!("integer {} with non-integer", op)),
        },
        V::Bool(a) => match (canon, arg) {
            ("==", V::Bool(b)) => Ok(V::Bool(a == b)),
            ("!=", V::Bool(b)) => Ok(V::Bool(a != b)),
            ("==", _) => Ok(V::Bool(false)),
            ("!=", _) => Ok(V::Bool(true)),
            ("&", V::Bool(b)) => Ok(V::Bool(a & b)),
            ("|", V::Bool(b)) => Ok(V::Bool(a | b)),
            (op, _) => Err(format!("boolean {}", op)),
        },
        V::Ref(_) => Err("builtin on reference".into()),
    }
}

/// 32-bit integer operations specified over i64.
pub fn int_op(op: &str, a: i32, b: i32) -> Result<V, String> {
    let (x, y) = (a as i64, b as i64);
    let wrap = |v: i64| V::Int(v as i32); // truncation to the low 32 bits = wrap modulo 2^32
    match op {
        "+" => Ok(wrap(x + y)),
        "-" => Ok(wrap(x - y)),
        "*" => Ok(wrap(x * y)),
        "/" => {
            if y == 0 {
                Err("division by zero".into())
            } else {
                let q = x / y; // i64 division truncates toward zero
                if q > i32::MAX as i64 || q < i32::MIN as i64 {
                    Err("MIN / -1".into())
                } else {
                    Ok(V::Int(q as i32))
                }
            }
        }
        "%" => {
            if y == 0 {
                Err("remainder by zero".into())
            } else {
                Ok(V::Int((x % y) as i32)) // sign of the dividend
            }
        }
        "<" => Ok(V::Bool(x < y)),
        "<=" => Ok(V::Bool(x <= y)),
        ">" => Ok(V::Bool(x > y)),
        ">=" => Ok(V::Bool(x >= y)),
        other => Err(format!("no method {} in integer", other)),
    }
}

/// C15 formatter: escapes decoded, `~` takes the next argument, count mismatch
/// or an unknown escape fails without output.
pub fn format_print(fmt: &str, args: &[String]) -> Result<String, String> {
    let mut out = String::new();
    let mut it = fmt.chars();
    let mut next = 0usize;
    while let Some(c) = it.next() {
        match c {
            '\\' => match it.next() {
                Some('n') => out.push('\n'),
                Some('t') => out.push('\t'),
                Some('r') => out.push('\r'),
                Some('\\') => out.push('\\'),
                Some('"') => out.push('"'),
                Some('~') => out.push('~'),
                Some(x) => return Err(format!("unknown escape \\{}", x)),
                None => return Err("dangling backslash".into()),
            },
            '~' => {
                if next >= args.len() {
                    return Err("too few print arguments".into());
                }
                out.push_str(&args[next]);
                next += 1;
            }
            other => out.push(other),
        }
    }
    if next != args.len() {
        return Err("too many print arguments".into());
    }
    Ok(out)
}
