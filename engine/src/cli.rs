//! Subprocess driver for the real `fml` binaries (debug and release).

use std::io::Write;
use std::os::unix::process::ExitStatusExt;
use std::path::{Path, PathBuf};
use std::process::{Command, Stdio};

#[derive(Clone, Debug, PartialEq, Eq)]
pub enum Status {
    Exit(i32),
    Signal(i32),
}

impl Status {
    pub fn success(&self) -> bool {
        *self == Status::Exit(0)
    }
    pub fn clean_failure(&self) -> bool {
        matches!(self, Status::Exit(c) if *c != 0)
    }
    pub fn class(&self) -> &'static str {
        match self {
            Status::Exit(0) => "zero",
            Status::Exit(_) => "nonzero",
            Status::Signal(_) => "signal",
        }
    }
}

#[derive(Clone, Debug)]
pub struct CliOut {
    pub stdout: Vec<u8>,
    pub stderr: Vec<u8>,
    pub status: Status,
}

impl CliOut {
    pub fn out_str(&self) -> String {
        String::from_utf8_lossy(&self.stdout).to_string()
    }
    pub fn err_str(&self) -> String {
        String::from_utf8_lossy(&self.stderr).to_string()
    }
}

pub fn fml_release() -> String {
    std::env::var("FMLV_FML_RELEASE").unwrap_or_else(|_| "/verif/.build/fml/release/fml".to_string())
}

pub fn fml_debug() -> String {
    std::env::var("FMLV_FML_DEBUG").unwrap_or_else(|_| "/verif/.build/fml/debug/fml".to_string())
}

pub struct Invocation<'a> {
    pub bin: &'a str,
    pub args: Vec<String>,
    pub stdin: Option<Vec<u8>>,
    pub cwd: Option<PathBuf>,
    pub env: Vec<(String, String)>,
    pub clear_env: bool,
}

impl<'a> Invocation<'a> {
    pub fn new(bin: &'a str, args: &[&str]) -> Self {
        Invocation { bin, args: args.iter().map(|s| s.to_string()).collect(), stdin: None, cwd: None, env: vec![], clear_env: false }
    }
    pub fn stdin(mut self, data: &[u8]) -> Self {
        self.stdin = Some(data.to_vec());
        self
    }
    pub fn cwd(mut self, p: &Path) -> Self {
        self.cwd = Some(p.to_path_buf());
        self
    }
    pub fn env(mut self, k: &str, v: &str) -> Self {
        self.env.push((k.to_string(), v.to_string()));
        self
    }
    pub fn run(self) -> std::io::Result<CliOut> {
        let mut c = Command::new(self.bin);
        c.args(&self.args);
        if self.clear_env {
            c.env_clear();
        }
        // backtraces would only add noise to stderr
        c.env_remove("RUST_BACKTRACE");
        for (k, v) in &self.env {
            c.env(k, v);
        }
        if let Some(d) = &self.cwd {
            c.current_dir(d);
        }
        c.stdin(if self.stdin.is_some() { Stdio::piped() } else { Stdio::null() });
        c.stdout(Stdio::piped());
        c.stderr(Stdio::piped());
        let mut child = c.spawn()?;
        let feeder = self.stdin.map(|data| {
            let mut si = child.stdin.take().unwrap();
            // write from a thread so that a child that never reads cannot deadlock us
            std::thread::spawn(move || {
                let _ = si.write_all(&data);
            })
        });
        // drain the pipes from threads, wait with a watchdog: a child that does not finish within
        // the limit is killed and reported as an I/O error (inconclusive, never a violation)
        let mut so = child.stdout.take().unwrap();
        let mut se = child.stderr.take().unwrap();
        let t_out = std::thread::spawn(move || {
            let mut v = Vec::new();
            let _ = std::io::Read::read_to_end(&mut so, &mut v);
            v
        });
        let t_err = std::thread::spawn(move || {
            let mut v = Vec::new();
            let _ = std::io::Read::read_to_end(&mut se, &mut v);
            v
        });
        use wait_timeout::ChildExt;
        let limit = std::time::Duration::from_secs(watchdog_secs());
        let status = match child.wait_timeout(limit)? {
            Some(st) => st,
            None => {
                let _ = child.kill();
                let _ = child.wait();
                let _ = t_out.join();
                let _ = t_err.join();
                if let Some(h) = feeder {
                    let _ = h.join();
                }
                return Err(std::io::Error::new(
                    std::io::ErrorKind::TimedOut,
                    format!("WATCHDOG: `{} {}` did not finish within {} s and was killed (inconclusive)", self.bin, self.args.join(" "), limit.as_secs()),
                ));
            }
        };
        let stdout = t_out.join().unwrap_or_default();
        let stderr = t_err.join().unwrap_or_default();
        if let Some(h) = feeder {
            let _ = h.join();
        }
        let st = match (status.code(), status.signal()) {
            (Some(c), _) => Status::Exit(c),
            (None, Some(s)) => Status::Signal(s),
            _ => Status::Signal(0),
        };
        if st == Status::Signal(9) {
            // SIGKILL comes from outside (out-of-memory killer): not a behaviour of the program
            return Err(std::io::Error::new(std::io::ErrorKind::Other, format!("`{} {}` was killed by SIGKILL (out of memory?): inconclusive", self.bin, self.args.join(" "))));
        }
        Ok(CliOut { stdout, stderr, status: st })
    }
}

/// seconds a single fml process may take (safety net only; every program that reaches a real
/// binary was first bounded by the reference interpreter's fuel)
pub fn watchdog_secs() -> u64 {
    std::env::var("FMLV_WATCHDOG_SECS").ok().and_then(|s| s.parse().ok()).unwrap_or(120)
}

#[allow(dead_code)]
fn pack(out: std::process::Output) -> CliOut {
    let status = match (out.status.code(), out.status.signal()) {
        (Some(c), _) => Status::Exit(c),
        (None, Some(s)) => Status::Signal(s),
        _ => Status::Signal(0),
    };
    CliOut { stdout: out.stdout, stderr: out.stderr, status }
}

pub fn run_fml(bin: &str, args: &[&str]) -> std::io::Result<CliOut> {
    Invocation::new(bin, args).run()
}

/// Per-worker scratch directory under /verif/.work (never /tmp).
pub struct Scratch {
    pub dir: PathBuf,
    n: u64,
}

impl Scratch {
    pub fn new(prop: &str, tag: &str) -> Scratch {
        let base = std::env::var("FMLV_WORK").unwrap_or_else(|_| "/verif/.work".to_string());
        let dir = PathBuf::from(base).join(format!("{}-scratch", prop)).join(format!("{}-{}", tag, std::process::id()));
        let _ = std::fs::remove_dir_all(&dir);
        std::fs::create_dir_all(&dir).unwrap();
        Scratch { dir, n: 0 }
    }
    pub fn file(&mut self, name: &str) -> PathBuf {
        self.dir.join(name)
    }
    pub fn fresh(&mut self, stem: &str, ext: &str) -> PathBuf {
        self.n += 1;
        self.dir.join(format!("{}{}.{}", stem, self.n, ext))
    }
    pub fn subdir(&mut self, name: &str) -> PathBuf {
        self.n += 1;
        let d = self.dir.join(format!("{}{}", name, self.n));
        std::fs::create_dir_all(&d).unwrap();
        d
    }
    pub fn clean(&mut self) {
        if let Ok(rd) = std::fs::read_dir(&self.dir) {
            for e in rd.flatten() {
                let p = e.path();
                if p.is_dir() {
                    let _ = std::fs::remove_dir_all(&p);
                } else {
                    let _ = std::fs::remove_file(&p);
                }
            }
        }
    }
}

impl Drop for Scratch {
    fn drop(&mut self) {
        let _ = std::fs::remove_dir_all(&self.dir);
    }
}
