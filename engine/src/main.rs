use fmlverif::harness::*;
use std::path::PathBuf;

fn usage() -> ! {
    eprintln!("usage: fmlverif run <ID> <quick|thorough> [--seed N]");
    eprintln!("       fmlverif worker <ID> <tier> --seed N --index I --of K --out FILE --tag T");
    eprintln!("       fmlverif replay <ID> <FILE>");
    eprintln!("       fmlverif gen <profile> <seed> [count]   (print generated programs)");
    std::process::exit(2)
}

fn arg_after(args: &[String], flag: &str) -> Option<String> {
    args.iter().position(|a| a == flag).and_then(|i| args.get(i + 1)).cloned()
}

fn real_main() -> i32 {
    let args: Vec<String> = std::env::args().skip(1).collect();
    if args.is_empty() {
        usage();
    }
    let seed_env = std::env::var("VERIF_SEED").ok().and_then(|s| s.parse::<u64>().ok());
    match args[0].as_str() {
        "run" => {
            if args.len() < 3 {
                usage();
            }
            let p = match fmlverif::props::by_id(&args[1]) {
                Some(p) => p,
                None => {
                    eprintln!("unknown property {}", args[1]);
                    return 2;
                }
            };
            let tier = Tier::parse(&args[2]).unwrap_or_else(|| usage());
            let seed = arg_after(&args, "--seed").and_then(|s| s.parse().ok()).or(seed_env).unwrap_or(1);
            run_supervisor(&*p, &RunArgs { tier, seed })
        }
        "worker" => {
            let p = fmlverif::props::by_id(&args[1]).unwrap_or_else(|| usage());
            let tier = Tier::parse(&args[2]).unwrap_or_else(|| usage());
            let a = WorkerArgs {
                tier,
                seed: arg_after(&args, "--seed").and_then(|s| s.parse().ok()).unwrap_or(1),
                index: arg_after(&args, "--index").and_then(|s| s.parse().ok()).unwrap_or(0),
                of: arg_after(&args, "--of").and_then(|s| s.parse().ok()).unwrap_or(1),
                out: PathBuf::from(arg_after(&args, "--out").unwrap_or_else(|| usage())),
                profile_tag: arg_after(&args, "--tag").unwrap_or_else(|| "release".into()),
            };
            run_worker(&*p, &a)
        }
        "replay" => {
            if args.len() < 3 {
                usage();
            }
            let p = fmlverif::props::by_id(&args[1]).unwrap_or_else(|| usage());
            replay_outer(&*p, &PathBuf::from(&args[2]))
        }
        "replay-inner" => {
            let p = fmlverif::props::by_id(&args[1]).unwrap_or_else(|| usage());
            replay_inner(&*p, &PathBuf::from(&args[2]))
        }
        "gen" => {
            let prof = fmlverif::tools::profile_by_name(args.get(1).map(|s| s.as_str()).unwrap_or("full"));
            let seed: u64 = args.get(2).and_then(|s| s.parse().ok()).unwrap_or(1);
            let count: u64 = args.get(3).and_then(|s| s.parse().ok()).unwrap_or(1);
            fmlverif::tools::print_generated(&prof, seed, count);
            0
        }
        _ => fmlverif::tools::tool_main(&args),
    }
}

fn main() {
    // everything runs on a big stack: the reference interpreter and FML's own
    // recursive compiler/printer are exercised with deep structures
    let h = std::thread::Builder::new().stack_size(2 << 30).spawn(real_main).unwrap();
    let code = h.join().unwrap_or(2);
    std::process::exit(code);
}
