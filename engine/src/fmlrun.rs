//! Adapters around FML's own (unmodified) functions: parse, compile, serialize,
//! load, execute.  Panics inside FML are caught and reported as clean failures
//! (the in-process analogue of exit status 101).

use crate::bytecode::interpreter::{evaluate_with, step_with};
use crate::bytecode::program::Program;
use crate::bytecode::serializable::Serializable;
use crate::bytecode::state::State;
use crate::parser::AST;
use std::cell::Cell;
use std::panic::{catch_unwind, AssertUnwindSafe};

thread_local! {
    static IN_FML: Cell<bool> = Cell::new(false);
    static PARSER: crate::fml::TopLevelParser = crate::fml::TopLevelParser::new();
}

/// Install a panic hook that stays silent while FML code runs (its panics are
/// expected outcomes) and prints everything else.
pub fn install_panic_hook() {
    let default = std::panic::take_hook();
    std::panic::set_hook(Box::new(move |info| {
        let quiet = IN_FML.with(|f| f.get());
        if !quiet {
            default(info);
        }
    }));
}

fn panic_text(p: Box<dyn std::any::Any + Send>) -> String {
    if let Some(s) = p.downcast_ref::<&str>() {
        s.to_string()
    } else if let Some(s) = p.downcast_ref::<String>() {
        s.clone()
    } else {
        "panic".to_string()
    }
}

/// Run `f` (FML code) catching panics.
pub fn guarded<T>(f: impl FnOnce() -> T) -> Result<T, String> {
    let prev = IN_FML.with(|c| c.replace(true));
    let r = catch_unwind(AssertUnwindSafe(f));
    IN_FML.with(|c| c.set(prev));
    r.map_err(|p| format!("panic: {}", panic_text(p)))
}

pub fn parse(src: &str) -> Result<AST, String> {
    guarded(|| PARSER.with(|p| p.parse(src).map_err(|e| format!("{:?}", e))))?
}

pub fn compile(ast: &AST) -> Result<Program, String> {
    guarded(|| crate::bytecode::compile(ast).map_err(|e| format!("{:#}", e)))?
}

pub fn serialize(p: &Program) -> Result<Vec<u8>, String> {
    guarded(|| {
        let mut v: Vec<u8> = Vec::new();
        p.serialize(&mut v).map(|_| v).map_err(|e| format!("{:#}", e))
    })?
}

pub fn load(bytes: &[u8]) -> Result<Program, String> {
    guarded(|| {
        let mut cur = std::io::Cursor::new(bytes);
        Program::from_bytes(&mut cur)
    })
}

pub fn disassemble(p: &Program) -> Result<String, String> {
    guarded(|| format!("{}", p))
}

#[derive(Clone, Debug, PartialEq, Eq)]
pub enum Exec {
    Ok,
    /// clean failure (Err or caught panic), with the diagnostic
    Fail(String),
    /// did not terminate within the fuel derived from the reference run
    Runaway,
}

impl Exec {
    pub fn is_ok(&self) -> bool {
        matches!(self, Exec::Ok)
    }
    pub fn is_fail(&self) -> bool {
        matches!(self, Exec::Fail(_))
    }
    pub fn class(&self) -> &'static str {
        match self {
            Exec::Ok => "ok",
            Exec::Fail(_) => "fail",
            Exec::Runaway => "runaway",
        }
    }
}

pub struct ExecResult {
    pub out: String,
    pub exec: Exec,
    pub steps: u64,
}

/// `State::from` + `step_with` under a fuel bound.
pub fn run_stepped(p: &Program, fuel: u64) -> ExecResult {
    run_stepped_cfg(p, fuel, None)
}

pub fn run_stepped_cfg(p: &Program, fuel: u64, heap_log: Option<std::path::PathBuf>) -> ExecResult {
    let mut out = String::new();
    let mut steps = 0u64;
    let r = guarded(|| -> Result<Exec, String> {
        let mut state = State::from(p).map_err(|e| format!("{:#}", e))?;
        if let Some(l) = heap_log {
            state.heap.set_log(l);
        }
        while state.instruction_pointer.get().is_some() {
            if steps >= fuel {
                return Ok(Exec::Runaway);
            }
            steps += 1;
            step_with(p, &mut state, &mut out).map_err(|e| format!("{:#}", e))?;
        }
        Ok(Exec::Ok)
    });
    let exec = match r {
        Ok(Ok(e)) => e,
        Ok(Err(s)) => Exec::Fail(s),
        Err(s) => Exec::Fail(s),
    };
    ExecResult { out, exec, steps }
}

/// The real fetch-execute loop (`evaluate_with`); only call on programs known to terminate.
pub fn run_loop(p: &Program) -> ExecResult {
    let mut out = String::new();
    let r = guarded(|| -> Result<(), String> {
        let mut state = State::from(p).map_err(|e| format!("{:#}", e))?;
        evaluate_with(p, &mut state, &mut out).map_err(|e| format!("{:#}", e))
    });
    let exec = match r {
        Ok(Ok(())) => Exec::Ok,
        Ok(Err(s)) => Exec::Fail(s),
        Err(s) => Exec::Fail(s),
    };
    ExecResult { out, exec, steps: 0 }
}

/// Whole in-process pipeline for a source text, as `fml run` does it plus the
/// serialize/load leg of `fml compile | fml execute`.
pub struct Pipeline {
    pub ast: AST,
    pub program: Program,
    pub bytes: Vec<u8>,
    pub loaded: Program,
}

#[derive(Debug)]
pub enum StageErr {
    Parse(String),
    Compile(String),
    Serialize(String),
    Load(String),
}

pub fn pipeline(src: &str) -> Result<Pipeline, StageErr> {
    let ast = parse(src).map_err(StageErr::Parse)?;
    let program = compile(&ast).map_err(StageErr::Compile)?;
    let bytes = serialize(&program).map_err(StageErr::Serialize)?;
    let loaded = load(&bytes).map_err(StageErr::Load)?;
    Ok(Pipeline { ast, program, bytes, loaded })
}
