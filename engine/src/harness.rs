//! Campaign framework: per-worker context (counters, labels, distinct
//! non-trivial digests, samples), violations, known findings, the proptest
//! driver over choice tapes, the supervisor that forks worker processes, and
//! evidence writing.

use crate::tape::{digest, hex, mix, unhex};
use proptest::strategy::ValueTree;
use proptest::test_runner::{Config, RngSeed, TestCaseError, TestError, TestRunner};
use serde_json::{json, Value};
use std::collections::{BTreeMap, HashSet};
use std::io::Write;
use std::os::unix::fs::FileExt;
use std::path::{Path, PathBuf};
use std::time::Instant;

/// root of the verification tree (the directory of the `check` script that started us)
pub fn verif_root() -> String {
    std::env::var("FMLV_VERIF").unwrap_or_else(|_| "/verif".to_string())
}

#[derive(Clone, Copy, PartialEq, Eq, Debug)]
pub enum Tier {
    Quick,
    Thorough,
}

impl Tier {
    pub fn name(&self) -> &'static str {
        match self {
            Tier::Quick => "quick",
            Tier::Thorough => "thorough",
        }
    }
    pub fn parse(s: &str) -> Option<Tier> {
        match s {
            "quick" => Some(Tier::Quick),
            "thorough" => Some(Tier::Thorough),
            _ => None,
        }
    }
    pub fn pick<T>(&self, q: T, t: T) -> T {
        match self {
            Tier::Quick => q,
            Tier::Thorough => t,
        }
    }
}

#[derive(Clone, Debug)]
pub struct Violation {
    /// short machine-readable kind, e.g. "output-mismatch"
    pub kind: String,
    pub detail: String,
    /// everything needed to re-judge the case without any generator
    pub case: Value,
    /// discriminating fields matched against known_findings.json
    pub sig: BTreeMap<String, String>,
}

impl Violation {
    pub fn new(kind: &str, detail: impl Into<String>, case: Value) -> Violation {
        let mut sig = BTreeMap::new();
        sig.insert("kind".to_string(), kind.to_string());
        Violation { kind: kind.to_string(), detail: detail.into(), case, sig }
    }
    pub fn with(mut self, k: &str, v: impl Into<String>) -> Violation {
        self.sig.insert(k.to_string(), v.into());
        self
    }
    pub fn to_json(&self) -> Value {
        json!({"kind": self.kind, "detail": self.detail, "case": self.case, "sig": self.sig})
    }
    pub fn from_json(v: &Value) -> Violation {
        let mut sig = BTreeMap::new();
        if let Some(m) = v["sig"].as_object() {
            for (k, x) in m {
                sig.insert(k.clone(), x.as_str().unwrap_or("").to_string());
            }
        }
        Violation {
            kind: v["kind"].as_str().unwrap_or("?").to_string(),
            detail: v["detail"].as_str().unwrap_or("").to_string(),
            case: v["case"].clone(),
            sig,
        }
    }
}

pub type Judged = Result<(), Violation>;

/// Per-worker accumulation of what was actually explored.
pub struct Ctx {
    pub evaluations: u64,
    pub distinct: HashSet<u64>,
    pub classes: BTreeMap<String, u64>,
    pub excluded: BTreeMap<String, u64>,
    pub samples: Vec<(usize, Value)>,
    /// false while proptest re-runs the closure for shrinking
    pub counting: bool,
    pub violations: Vec<Violation>,
    pub known_seen: BTreeMap<String, u64>,
    pub tier: Tier,
    pub seed: u64,
    pub index: usize,
    pub of: usize,
    sample_every: u64,
    pub extra: BTreeMap<String, Value>,
    pub known: Vec<Known>,
    pub prop: String,
    /// fuel of the reference interpreter for the case at hand (None: refsem::DEFAULT_FUEL);
    /// raised for the fixed long-running scale programs only
    pub ref_fuel: Option<u64>,
}

impl Ctx {
    pub fn new(prop: &str, tier: Tier, seed: u64, index: usize, of: usize) -> Ctx {
        Ctx {
            known: load_known(),
            prop: prop.to_string(),
            evaluations: 0,
            distinct: HashSet::new(),
            classes: BTreeMap::new(),
            excluded: BTreeMap::new(),
            samples: vec![],
            counting: true,
            violations: vec![],
            known_seen: BTreeMap::new(),
            tier,
            seed,
            index,
            of,
            sample_every: 1,
            extra: BTreeMap::new(),
            ref_fuel: None,
        }
    }
    pub fn eval(&mut self) {
        if self.counting {
            self.evaluations += 1;
        }
    }
    pub fn label(&mut self, l: &str) {
        if self.counting {
            *self.classes.entry(l.to_string()).or_insert(0) += 1;
        }
    }
    pub fn label_n(&mut self, l: &str, n: u64) {
        if self.counting && n > 0 {
            *self.classes.entry(l.to_string()).or_insert(0) += n;
        }
    }
    pub fn exclude(&mut self, l: &str) {
        if self.counting {
            *self.excluded.entry(l.to_string()).or_insert(0) += 1;
        }
    }
    /// record a non-trivial case by the digest of its identity
    pub fn nontrivial(&mut self, identity: &[u8]) {
        if self.counting {
            self.distinct.insert(digest(identity));
        }
    }
    /// Offer a sample; a bounded, size-diverse selection is kept.
    pub fn sample(&mut self, size: usize, make: impl FnOnce() -> Value) {
        if !self.counting {
            return;
        }
        let n = self.evaluations;
        if self.samples.len() < 3 {
            self.samples.push((size, make()));
            return;
        }
        // keep the largest seen so far in slot 3, and a thinning stream in slots 4..7
        if self.samples.len() < 4 {
            self.samples.push((size, make()));
            return;
        }
        if size > self.samples[3].0 {
            self.samples[3] = (size, make());
            return;
        }
        if n % self.sample_every == 0 {
            if self.samples.len() < 8 {
                self.samples.push((size, make()));
            } else {
                let slot = 4 + ((n / self.sample_every) % 4) as usize;
                self.samples[slot] = (size, make());
            }
            self.sample_every = (self.sample_every * 4).min(1 << 40);
        }
    }
    /// A violation that matches an open known finding is counted and the search
    /// continues; anything else is returned as the violation it is.
    pub fn settle(&mut self, v: Violation) -> Judged {
        if let Some(k) = match_known(&self.known, &self.prop, &v) {
            let id = k.id.clone();
            if self.counting {
                *self.known_seen.entry(id).or_insert(0) += 1;
            }
            return Ok(());
        }
        Err(v)
    }
    pub fn bump(&mut self, key: &str, n: u64) {
        if self.counting {
            let cur = self.extra.get(key).and_then(|v| v.as_u64()).unwrap_or(0);
            self.extra.insert(key.to_string(), json!(cur + n));
        }
    }
    pub fn shard_mine(&self, i: usize) -> bool {
        i % self.of == self.index
    }
}

// ------------------------------------------------------------------ known findings

#[derive(Clone, Debug)]
pub struct Known {
    pub id: String,
    pub property: String,
    pub status: String,
    pub what: String,
    pub signature: BTreeMap<String, String>,
}

pub fn load_known() -> Vec<Known> {
    let path = format!("{}/known_findings.json", verif_root());
    let txt = match std::fs::read_to_string(&path) {
        Ok(t) => t,
        Err(_) => return vec![],
    };
    let v: Value = serde_json::from_str(&txt).unwrap_or(Value::Null);
    let mut out = vec![];
    if let Some(arr) = v["findings"].as_array() {
        for e in arr {
            let mut signature = BTreeMap::new();
            if let Some(m) = e["signature"].as_object() {
                for (k, x) in m {
                    signature.insert(k.clone(), x.as_str().unwrap_or("").to_string());
                }
            }
            out.push(Known {
                id: e["id"].as_str().unwrap_or("").to_string(),
                property: e["property"].as_str().unwrap_or("").to_string(),
                status: e["status"].as_str().unwrap_or("").to_string(),
                what: e["what"].as_str().unwrap_or("").to_string(),
                signature,
            });
        }
    }
    out
}

/// An `open` finding suppresses a violation only when every field of its
/// signature equals the same field of the violation's signature.
pub fn match_known<'a>(known: &'a [Known], prop: &str, v: &Violation) -> Option<&'a Known> {
    known.iter().find(|k| {
        k.status == "open"
            && k.property == prop
            && !k.signature.is_empty()
            && k.signature.iter().all(|(f, val)| v.sig.get(f).map(|x| x == val).unwrap_or(false))
    })
}

// ------------------------------------------------------------------ property interface

pub trait Property: Sync {
    fn id(&self) -> &'static str;
    fn level(&self) -> &'static str {
        "exploration"
    }
    fn rule(&self) -> String;
    fn assumptions(&self) -> Vec<String> {
        vec![]
    }
    /// number of random cases per run (all workers together)
    fn random_cases(&self, tier: Tier) -> u64;
    fn max_tape(&self) -> usize {
        600
    }
    /// judge one generated case
    fn judge_tape(&self, tape: &[u8], ctx: &mut Ctx) -> Judged;
    /// enumerated / fixed parts; a worker handles the shard `ctx.shard_mine(i)`
    fn fixed_parts(&self, _ctx: &mut Ctx) -> Vec<Violation> {
        vec![]
    }
    /// was a finite space enumerated completely (reported as `exhaustive`)?
    fn exhaustive_note(&self, _tier: Tier) -> Option<String> {
        None
    }
    /// re-judge a saved case (no generator involved unless the case is a tape)
    fn replay(&self, case: &Value, ctx: &mut Ctx) -> Judged {
        if let Some(t) = case["tape"].as_str() {
            if let Some(bytes) = unhex(t) {
                return self.judge_tape(&bytes, ctx);
            }
        }
        Err(Violation::new("bad-replay-file", "no tape in case", case.clone()))
    }
    /// does the property need the engine built in the dev profile as well?
    fn both_profiles(&self) -> bool {
        false
    }
    /// number of worker processes
    fn workers(&self, _tier: Tier) -> usize {
        16
    }
    /// does a violation carry the failing program as IR (`case.ir`) that `replay` re-judges,
    /// so that the IR-level delta debugger can reduce it after proptest's tape shrink?
    fn ir_shrinkable(&self) -> bool {
        false
    }
    /// can the coverage-guided fuzz target extend this property's thorough tier?
    /// (in-process judgement, no real binaries involved)
    fn fuzzable(&self) -> bool {
        false
    }
    /// which fuzz target (binary of /verif/fuzz) serves this property
    fn fuzz_target(&self) -> &'static str {
        "tape"
    }
    /// the replay case for a libFuzzer artifact of that target
    fn fuzz_artifact_case(&self, bytes: &[u8]) -> Value {
        json!({"tape": hex(bytes)})
    }
    /// proptest shrink budget (0 for campaigns whose single case is already expensive
    /// and whose violations carry their own small reproduction)
    fn max_shrink_iters(&self) -> u32 {
        4000
    }
}

// ------------------------------------------------------------------ worker

pub struct WorkerArgs {
    pub tier: Tier,
    pub seed: u64,
    pub index: usize,
    pub of: usize,
    pub out: PathBuf,
    pub profile_tag: String,
}

fn write_slot(f: &std::fs::File, tape: &[u8]) {
    let mut buf = Vec::with_capacity(tape.len() + 4);
    buf.extend_from_slice(&(tape.len() as u32).to_le_bytes());
    buf.extend_from_slice(tape);
    let _ = f.write_all_at(&buf, 0);
}

pub fn read_slot(path: &Path) -> Option<Vec<u8>> {
    let b = std::fs::read(path).ok()?;
    if b.len() < 4 {
        return None;
    }
    let n = u32::from_le_bytes([b[0], b[1], b[2], b[3]]) as usize;
    if b.len() < 4 + n {
        return None;
    }
    Some(b[4..4 + n].to_vec())
}

pub fn run_worker(p: &dyn Property, a: &WorkerArgs) -> i32 {
    let start = Instant::now();
    let mut ctx = Ctx::new(p.id(), a.tier, a.seed, a.index, a.of);
    crate::fmlrun::install_panic_hook();

    // fixed / enumerated parts first (sharded)
    let fixed = p.fixed_parts(&mut ctx);
    ctx.violations.extend(fixed);

    // random campaign
    let total = p.random_cases(a.tier);
    let mine = total / a.of as u64 + if (a.index as u64) < total % a.of as u64 { 1 } else { 0 };
    if mine > 0 && ctx.violations.is_empty() {
        let slot_path = a.out.with_extension("slot");
        let slot = std::fs::OpenOptions::new().create(true).write(true).truncate(true).open(&slot_path).unwrap();
        let seed = mix(a.seed ^ mix(digest(p.id().as_bytes()) ^ mix(a.index as u64 + 1)) ^ digest(a.profile_tag.as_bytes()));
        let mut cfg = Config::default();
        cfg.cases = mine.min(u32::MAX as u64) as u32;
        cfg.failure_persistence = None;
        cfg.rng_seed = RngSeed::Fixed(seed);
        cfg.max_shrink_iters = p.max_shrink_iters();
        cfg.verbose = 0;
        cfg.max_global_rejects = u32::MAX;
        let mut runner = TestRunner::new(cfg);
        let strat = proptest::collection::vec(proptest::num::u8::ANY, 0..p.max_tape());
        let failed = std::cell::Cell::new(false);
        let first_violation: std::cell::RefCell<Option<Violation>> = std::cell::RefCell::new(None);
        let ctx_cell = std::cell::RefCell::new(&mut ctx);
        let result = runner.run(&strat, |tape| {
            let mut c = ctx_cell.borrow_mut();
            c.counting = !failed.get();
            write_slot(&slot, &tape);
            match p.judge_tape(&tape, &mut **c) {
                Ok(()) => Ok(()),
                Err(v) => {
                    if !failed.get() {
                        let mut v0 = v.clone();
                        if v0.case.get("tape").is_none() {
                            if let Some(o) = v0.case.as_object_mut() {
                                o.insert("tape".into(), json!(hex(&tape)));
                            }
                        }
                        *first_violation.borrow_mut() = Some(v0);
                    }
                    failed.set(true);
                    Err(TestCaseError::fail(v.kind))
                }
            }
        });
        drop(ctx_cell);
        ctx.counting = false;
        match result {
            Ok(()) => {}
            Err(TestError::Fail(_, tape)) => {
                // final judgement of the shrunk tape gives the violation record
                match p.judge_tape(&tape, &mut ctx) {
                    Err(mut v) => {
                        if v.case.get("tape").is_none() {
                            if let Some(o) = v.case.as_object_mut() {
                                o.insert("tape".into(), json!(hex(&tape)));
                            }
                        }
                        let v = shrink_violation(p, v, &mut ctx);
                        ctx.violations.push(v);
                    }
                    Ok(()) => {
                        // the failure depends on more than the tape (files left by the worker's
                        // earlier cases, or a non-deterministic program under test): report the
                        // violation as it was first observed
                        match first_violation.borrow_mut().take() {
                            Some(mut v) => {
                                v.detail = format!("{}\n(note: re-judging the same tape alone did not fail again - the failure depends on the history of earlier cases of this worker, e.g. files they left behind, or the tree under test is non-deterministic)", v.detail);
                                v.sig.insert("history_dependent".into(), "true".into());
                                ctx.violations.push(v)
                            }
                            None => ctx.violations.push(Violation::new(
                                "unstable-failure",
                                "shrunk tape no longer fails (non-deterministic check?)",
                                json!({"tape": hex(&tape)}),
                            )),
                        }
                    }
                }
            }
            Err(TestError::Abort(r)) => {
                ctx.violations.push(Violation::new("harness-abort", format!("{}", r), json!({})));
            }
        }
        let _ = std::fs::remove_file(&slot_path);
    }

    // write results
    let mut bin = Vec::with_capacity(ctx.distinct.len() * 8);
    for d in &ctx.distinct {
        bin.extend_from_slice(&d.to_le_bytes());
    }
    std::fs::write(a.out.with_extension("bin"), bin).unwrap();
    let res = json!({
        "evaluations": ctx.evaluations,
        "classes": ctx.classes,
        "excluded": ctx.excluded,
        "samples": ctx.samples.iter().map(|(s, v)| json!({"size": s, "case": v})).collect::<Vec<_>>(),
        "violations": ctx.violations.iter().map(|v| v.to_json()).collect::<Vec<_>>(),
        "known_seen": ctx.known_seen,
        "extra": ctx.extra,
        "wall_s": start.elapsed().as_secs_f64(),
    });
    std::fs::write(&a.out, serde_json::to_vec(&res).unwrap()).unwrap();
    0
}

/// IR-level delta debugging of a program-shaped violation (after the tape shrink).
pub fn shrink_violation(p: &dyn Property, v: Violation, ctx: &mut Ctx) -> Violation {
    if !p.ir_shrinkable() {
        return v;
    }
    let prog: crate::ir::Prog = match v.case.get("ir") {
        Some(x) if !x.is_null() => match serde_json::from_value(x.clone()) {
            Ok(p) => p,
            Err(_) => return v,
        },
        _ => return v,
    };
    if !crate::fragment::check(&prog) {
        return v; // the checker is conservative: do not reduce what it cannot vouch for
    }
    let kind = v.kind.clone();
    let tape = v.case.get("tape").cloned();
    let before: usize = prog.iter().map(|e| e.size()).sum();
    let best = std::cell::RefCell::new(v);
    let was = ctx.counting;
    ctx.counting = false;
    let small = crate::shrink::shrink_prog(
        &prog,
        &mut |cand| {
            let case = json!({"ir": serde_json::to_value(cand).unwrap(), "origin": "ir-shrink"});
            match p.replay(&case, ctx) {
                Err(v2) if v2.kind == kind => {
                    *best.borrow_mut() = v2;
                    true
                }
                _ => false,
            }
        },
        1500,
    );
    ctx.counting = was;
    let mut out = best.into_inner();
    let after: usize = small.iter().map(|e| e.size()).sum();
    if let Some(o) = out.case.as_object_mut() {
        o.insert("ir".into(), serde_json::to_value(&small).unwrap());
        o.insert("source".into(), json!(crate::render::pretty(&small)));
        o.insert("shrunk".into(), json!({"nodes_before": before, "nodes_after": after, "method": "proptest tape shrink, then IR-level delta debugging within the fragment"}));
        if let Some(t) = tape {
            o.insert("original_tape".into(), t);
        }
        o.remove("tape");
    }
    out
}

// ------------------------------------------------------------------ supervisor

pub struct RunArgs {
    pub tier: Tier,
    pub seed: u64,
}

fn work_dir(id: &str) -> PathBuf {
    let base = std::env::var("FMLV_WORK").unwrap_or_else(|_| format!("{}/.work", verif_root()));
    // unique per run: two runs of the same check (a sweep and a manual run) must not share files
    PathBuf::from(base).join(format!("{}-{}", id, std::process::id()))
}

pub fn engine_paths() -> (String, Option<String>) {
    let me = std::env::current_exe().unwrap().to_string_lossy().to_string();
    let rel = std::env::var("FMLV_ENGINE_RELEASE").unwrap_or(me);
    let dev = std::env::var("FMLV_ENGINE_DEV").ok();
    (rel, dev)
}

pub fn run_supervisor(p: &dyn Property, a: &RunArgs) -> i32 {
    let start = Instant::now();
    let id = p.id();
    let dir = work_dir(id);
    let _ = std::fs::remove_dir_all(&dir);
    std::fs::create_dir_all(&dir).unwrap();
    let known = load_known();
    let (rel, dev) = engine_paths();
    let n = p.workers(a.tier);
    // replay files of earlier runs of this property are stale by definition
    let rdir0 = std::env::var("FMLV_REPLAY_DIR").unwrap_or_else(|_| format!("{}/replays", verif_root()));
    if let Ok(rd) = std::fs::read_dir(&rdir0) {
        for e in rd.flatten() {
            if e.file_name().to_string_lossy().starts_with(&format!("{}-", id)) {
                let _ = std::fs::remove_file(e.path());
            }
        }
    }

    let mut violations: Vec<Violation> = vec![];
    let mut harness_errors: Vec<String> = vec![];

    // 1. replay the saved corpus (regression tier, no generators)
    let mut replayed = 0u64;
    let corpus = PathBuf::from(format!("{}/corpus/{}", verif_root(), id));
    let mut rctx = Ctx::new(id, a.tier, a.seed, 0, 1);
    crate::fmlrun::install_panic_hook();
    if let Ok(rd) = std::fs::read_dir(&corpus) {
        let mut files: Vec<PathBuf> = rd.filter_map(|e| e.ok()).map(|e| e.path()).filter(|p| p.extension().map(|x| x == "json").unwrap_or(false)).collect();
        files.sort();
        for f in files {
            let txt = std::fs::read_to_string(&f).unwrap_or_default();
            let v: Value = match serde_json::from_str(&txt) {
                Ok(v) => v,
                Err(e) => {
                    harness_errors.push(format!("corpus file {} unreadable: {}", f.display(), e));
                    continue;
                }
            };
            replayed += 1;
            // corpus cases are replayed in a child process so that a native crash is contained
            match replay_in_child(&rel, id, &f) {
                ChildVerdict::Ok => {}
                ChildVerdict::Violation(mut vs) => {
                    for x in vs.iter_mut() {
                        x.detail = format!("[corpus {}] {}", f.file_name().unwrap().to_string_lossy(), x.detail);
                    }
                    violations.extend(vs);
                }
                ChildVerdict::Crash(sig) => violations.push(
                    Violation::new("native-crash", format!("corpus case {} killed the checker process (signal {})", f.display(), sig), v["case"].clone())
                        .with("signal", sig.to_string()),
                ),
                ChildVerdict::Error(e) => harness_errors.push(e),
            }
        }
    }
    let _ = &mut rctx;

    // 2. workers
    let mut children = vec![];
    let mut plan: Vec<(String, String)> = vec![]; // (binary, tag)
    plan.push((rel.clone(), "release".to_string()));
    if p.both_profiles() {
        match &dev {
            Some(d) => plan.push((d.clone(), "dev".to_string())),
            None => harness_errors.push("FMLV_ENGINE_DEV not set but property needs both profiles".into()),
        }
    }
    for (bin, tag) in &plan {
        for i in 0..n {
            let out = dir.join(format!("w-{}-{}.json", tag, i));
            let child = std::process::Command::new(bin)
                .arg("worker")
                .arg(id)
                .arg(a.tier.name())
                .arg("--seed")
                .arg(a.seed.to_string())
                .arg("--index")
                .arg(i.to_string())
                .arg("--of")
                .arg(n.to_string())
                .arg("--out")
                .arg(&out)
                .arg("--tag")
                .arg(tag)
                .stdout(std::process::Stdio::inherit())
                .stderr(std::process::Stdio::inherit())
                .spawn();
            match child {
                Ok(c) => children.push((c, out, tag.clone(), i)),
                Err(e) => harness_errors.push(format!("cannot spawn worker {}: {}", bin, e)),
            }
        }
    }

    let mut evaluations = 0u64;
    let mut distinct: HashSet<u64> = HashSet::new();
    let mut classes: BTreeMap<String, u64> = BTreeMap::new();
    let mut excluded: BTreeMap<String, u64> = BTreeMap::new();
    let mut samples: Vec<(usize, Value)> = vec![];
    let mut known_seen: BTreeMap<String, u64> = BTreeMap::new();
    let mut extra: BTreeMap<String, Value> = BTreeMap::new();
    let mut per_profile: BTreeMap<String, u64> = BTreeMap::new();

    for (mut c, out, tag, i) in children {
        let status = c.wait();
        use std::os::unix::process::ExitStatusExt;
        match status {
            Ok(st) if st.success() => {}
            Ok(st) => {
                if let Some(sig) = st.signal() {
                    // native crash: the slot file holds the case that was running
                    let slot = out.with_extension("slot");
                    match read_slot(&slot) {
                        Some(tape) => violations.push(
                            Violation::new(
                                "native-crash",
                                format!("worker {}-{} died on signal {} while judging this case", tag, i, sig),
                                json!({"tape": hex(&tape)}),
                            )
                            .with("signal", sig.to_string()),
                        ),
                        None => harness_errors.push(format!("worker {}-{} died on signal {} outside the random campaign", tag, i, sig)),
                    }
                } else {
                    harness_errors.push(format!("worker {}-{} exited with {:?}", tag, i, st.code()));
                }
                continue;
            }
            Err(e) => {
                harness_errors.push(format!("wait failed: {}", e));
                continue;
            }
        }
        let txt = match std::fs::read(&out) {
            Ok(t) => t,
            Err(e) => {
                harness_errors.push(format!("worker result missing {}: {}", out.display(), e));
                continue;
            }
        };
        let v: Value = serde_json::from_slice(&txt).unwrap_or(Value::Null);
        let ev = v["evaluations"].as_u64().unwrap_or(0);
        evaluations += ev;
        *per_profile.entry(tag.clone()).or_insert(0) += ev;
        if let Some(m) = v["classes"].as_object() {
            for (k, x) in m {
                *classes.entry(k.clone()).or_insert(0) += x.as_u64().unwrap_or(0);
            }
        }
        if let Some(m) = v["excluded"].as_object() {
            for (k, x) in m {
                *excluded.entry(k.clone()).or_insert(0) += x.as_u64().unwrap_or(0);
            }
        }
        if let Some(m) = v["known_seen"].as_object() {
            for (k, x) in m {
                *known_seen.entry(k.clone()).or_insert(0) += x.as_u64().unwrap_or(0);
            }
        }
        if let Some(m) = v["extra"].as_object() {
            for (k, x) in m {
                merge_extra(&mut extra, k, x);
            }
        }
        if let Some(arr) = v["samples"].as_array() {
            for s in arr {
                samples.push((s["size"].as_u64().unwrap_or(0) as usize, s["case"].clone()));
            }
        }
        if let Some(arr) = v["violations"].as_array() {
            for x in arr {
                violations.push(Violation::from_json(x));
            }
        }
        if let Ok(b) = std::fs::read(out.with_extension("bin")) {
            for ch in b.chunks_exact(8) {
                let mut a8 = [0u8; 8];
                a8.copy_from_slice(ch);
                distinct.insert(u64::from_le_bytes(a8));
            }
        }
    }

    // 2b. thorough tier: coverage-guided extension on the same decoder and oracle
    let mut fuzz_info: Option<Value> = None;
    if a.tier == Tier::Thorough && p.fuzzable() {
        let (info, found) = run_fuzz(p, a.seed, &dir, &rel);
        fuzz_info = Some(info);
        violations.extend(found);
    }

    // 3. verdicts: known findings are reported, everything else is a violation
    let mut real: Vec<Violation> = vec![];
    let mut seen_real: HashSet<u64> = HashSet::new();
    for v in violations {
        if v.kind == "harness-abort" || v.kind == "harness-error" {
            harness_errors.push(format!("{}: {}", v.kind, v.detail));
            continue;
        }
        match match_known(&known, id, &v) {
            Some(k) => {
                *known_seen.entry(k.id.clone()).or_insert(0) += 1;
            }
            None => {
                let d = digest(serde_json::to_string(&v.to_json()).unwrap().as_bytes());
                if seen_real.insert(d) {
                    real.push(v)
                }
            }
        }
    }
    for (kid, n) in &known_seen {
        if let Some(k) = known.iter().find(|k| &k.id == kid) {
            println!("KNOWN-FINDING: property={} {} [{}; seen {}x]", id, k.what, k.id, n);
        }
    }

    // 4. evidence
    samples.sort_by_key(|(s, _)| *s);
    let picked = pick_samples(&samples, 8);
    let wall = start.elapsed().as_secs_f64();
    let mut coverage = json!({
        "evaluations": evaluations,
        "distinct_nontrivial": distinct.len(),
        "rule": p.rule(),
        "samples": picked,
        "classes": classes,
        "excluded": excluded,
        "corpus_replayed": replayed,
        "known_findings_seen": known_seen,
        "per_profile_evaluations": per_profile,
        "workers": n * plan.len(),
    });
    if let Some(f) = fuzz_info {
        coverage["fuzz"] = f;
    }
    if let Some(note) = p.exhaustive_note(a.tier) {
        coverage["exhaustive"] = json!(true);
        coverage["exhaustive_space"] = json!(note);
    }
    for (k, v) in extra {
        coverage[k] = v;
    }
    if !harness_errors.is_empty() {
        coverage["harness_errors"] = json!(harness_errors);
    }
    let evidence = json!({
        "property_id": id,
        "tier": a.tier.name(),
        "seed": a.seed,
        "level": p.level(),
        "coverage": coverage,
        "assumptions": p.assumptions(),
        "wall_s": wall,
        "violations": real.len(),
    });
    let evdir = std::env::var("FMLV_EVIDENCE_DIR").unwrap_or_else(|_| format!("{}/evidence", verif_root()));
    let _ = std::fs::create_dir_all(&evdir);
    let evpath = format!("{}/{}.json", evdir, id);
    std::fs::write(&evpath, serde_json::to_string_pretty(&evidence).unwrap()).unwrap();

    // 5. report
    println!(
        "{} {} seed={} evaluations={} distinct_nontrivial={} violations={} wall={:.1}s",
        id,
        a.tier.name(),
        a.seed,
        evaluations,
        distinct.len(),
        real.len(),
        wall
    );
    if !real.is_empty() {
        let rdir = std::env::var("FMLV_REPLAY_DIR").unwrap_or_else(|_| format!("{}/replays", verif_root()));
        let _ = std::fs::create_dir_all(&rdir);
        for v in &real {
            let body = json!({"property": id, "seed": a.seed, "tier": a.tier.name(), "kind": v.kind, "detail": v.detail, "case": v.case, "sig": v.sig});
            let txt = serde_json::to_string_pretty(&body).unwrap();
            let h = digest(serde_json::to_string(&v.case).unwrap().as_bytes());
            let path = format!("{}/{}-{:016x}.json", rdir, id, h);
            let _ = std::fs::write(&path, txt);
            println!("VIOLATION property={} replay={}", id, path);
            let mut d = v.detail.clone();
            if d.len() > 1500 {
                d.truncate(1500);
                d.push_str("...");
            }
            println!("  kind={} {}", v.kind, d.replace('\n', "\n  "));
        }
        return 1;
    }
    if !harness_errors.is_empty() {
        for e in &harness_errors {
            eprintln!("HARNESS-ERROR: {}", e);
        }
        return 2;
    }
    let _ = std::fs::remove_dir_all(&dir);
    0
}

/// libFuzzer campaign: N processes on a shared corpus seeded with random tapes; every
/// artifact is re-judged through the normal replay path (in a child process).
fn run_fuzz(p: &dyn Property, seed: u64, dir: &Path, engine: &str) -> (Value, Vec<Violation>) {
    // FMLV_FUZZ_BIN names the `tape` target; sibling targets live next to it
    let bin = std::env::var("FMLV_FUZZ_BIN").unwrap_or_default();
    let bin = if p.fuzz_target() == "tape" || bin.is_empty() {
        bin
    } else {
        Path::new(&bin).with_file_name(p.fuzz_target()).to_string_lossy().to_string()
    };
    if bin.is_empty() || !Path::new(&bin).exists() {
        return (json!({"skipped": "fuzz target not built (nightly toolchain / cargo-fuzz build failed or FMLV_FUZZ_BIN unset)"}), vec![]);
    }
    let secs: u64 = std::env::var("FMLV_FUZZ_SECS").ok().and_then(|s| s.parse().ok()).unwrap_or(120);
    let procs: usize = std::env::var("FMLV_FUZZ_PROCS").ok().and_then(|s| s.parse().ok()).unwrap_or(12);
    let corpus = dir.join("fuzz-corpus");
    let arts = dir.join("fuzz-artifacts");
    let _ = std::fs::create_dir_all(&corpus);
    let _ = std::fs::create_dir_all(&arts);
    for k in 0..64u64 {
        let len = 40 + (mix(seed ^ k) % (p.max_tape() as u64 - 40).max(1)) as usize;
        let tape = crate::tools::random_tape(mix(seed.wrapping_mul(31) ^ (k << 8)), len);
        if p.fuzz_target() == "source" {
            // seed the source-text target with rendered generated programs
            let mut t = crate::tape::Tape::new(&tape);
            let g = crate::gen::prog::generate(&mut t, &crate::gen::prog::Profile::full());
            let _ = std::fs::write(corpus.join(format!("seed-{}", k)), crate::render::text(&g.prog, crate::render::Style::Minimal));
        } else {
            let _ = std::fs::write(corpus.join(format!("seed-{}", k)), tape);
        }
    }
    let mut kids = vec![];
    for i in 0..procs {
        let c = std::process::Command::new(&bin)
            .arg(&corpus)
            .arg(format!("-max_total_time={}", secs))
            .arg("-detect_leaks=0")
            .arg("-len_control=0")
            .arg(format!("-max_len={}", p.max_tape()))
            .arg("-print_final_stats=1")
            .arg("-malloc_limit_mb=1024")
            .arg("-timeout=60")
            .arg(format!("-seed={}", (mix(seed ^ (i as u64 + 1)) % 0x7fff_fffe) + 1))
            .arg(format!("-artifact_prefix={}/w{}-", arts.display(), i))
            .env("FMLV_PROP", p.id())
            .stdout(std::process::Stdio::null())
            .stderr(std::process::Stdio::piped())
            .spawn();
        if let Ok(c) = c {
            kids.push(c);
        }
    }
    let mut execs = 0u64;
    let mut new_units = 0u64;
    let mut cov = 0u64;
    let started = kids.len();
    for c in kids {
        if let Ok(o) = c.wait_with_output() {
            let txt = String::from_utf8_lossy(&o.stderr);
            for line in txt.lines() {
                if let Some(v) = line.strip_prefix("stat::number_of_executed_units:") {
                    execs += v.trim().parse::<u64>().unwrap_or(0);
                }
                if let Some(v) = line.strip_prefix("stat::new_units_added:") {
                    new_units += v.trim().parse::<u64>().unwrap_or(0);
                }
                if let Some(pos) = line.find(" cov: ") {
                    if let Some(n) = line[pos + 6..].split(' ').next().and_then(|x| x.parse::<u64>().ok()) {
                        cov = cov.max(n);
                    }
                }
            }
        }
    }
    let corpus_size = std::fs::read_dir(&corpus).map(|r| r.count()).unwrap_or(0);
    let mut found = vec![];
    let mut artifacts = 0;
    let mut resource_artifacts = 0;
    if let Ok(rd) = std::fs::read_dir(&arts) {
        for e in rd.flatten() {
            let name = e.file_name().to_string_lossy().to_string();
            if p.fuzz_target() == "source" && (name.contains("-oom-") || name.contains("-timeout-")) {
                // memory / time exhaustion inside the instrumented process: not a crash of the
                // toolchain and not something the real binary should be made to repeat
                resource_artifacts += 1;
                continue;
            }
            artifacts += 1;
            let bytes = std::fs::read(e.path()).unwrap_or_default();
            let f = dir.join(format!("artifact-{}.json", artifacts));
            let body = json!({"property": p.id(), "case": p.fuzz_artifact_case(&bytes), "note": "libFuzzer artifact"});
            let _ = std::fs::write(&f, serde_json::to_string(&body).unwrap());
            match replay_in_child(engine, p.id(), &f) {
                ChildVerdict::Ok => {}
                ChildVerdict::Violation(vs) => found.extend(vs),
                ChildVerdict::Crash(sig) => found.push(
                    Violation::new("native-crash", format!("fuzz artifact kills the checker process (signal {})", sig), p.fuzz_artifact_case(&bytes)).with("signal", sig.to_string()),
                ),
                ChildVerdict::Error(_) => {}
            }
        }
    }
    (
        json!({
            "engine": if p.fuzz_target() == "source" { "libFuzzer (cargo-fuzz, nightly, ASan) on source text: parse, compile, serialize, load, fuel-bounded run and disassembly in-process; an input that kills the process is re-judged on the real binary" } else { "libFuzzer (cargo-fuzz, nightly, ASan) on the same tape decoder and in-target oracle" },
            "processes": started,
            "seconds_each": secs,
            "executions": execs,
            "new_units_added": new_units,
            "corpus_size": corpus_size,
            "max_cov_counters": cov,
            "artifacts": artifacts,
            "resource_artifacts_not_judged": resource_artifacts,
            "target": p.fuzz_target(),
            "artifacts_confirmed_as_violations": found.len(),
            "note": "campaigns are only approximately reproducible (-seed); the saved artifact re-judged by --replay is the reproducible unit"
        }),
        found,
    )
}

fn merge_extra(extra: &mut BTreeMap<String, Value>, k: &str, x: &Value) {
    match extra.get_mut(k) {
        None => {
            extra.insert(k.to_string(), x.clone());
        }
        Some(cur) => {
            if let (Some(a), Some(b)) = (cur.as_u64(), x.as_u64()) {
                *cur = json!(a + b);
            } else if let (Some(a), Some(b)) = (cur.as_array().cloned(), x.as_array()) {
                let mut a = a;
                for e in b {
                    if a.len() < 12 && !a.contains(e) {
                        a.push(e.clone());
                    }
                }
                *cur = json!(a);
            } else if let (Some(a), Some(b)) = (cur.as_object().cloned(), x.as_object()) {
                let mut a = a;
                for (kk, vv) in b {
                    match (a.get(kk).and_then(|q| q.as_u64()), vv.as_u64()) {
                        (Some(p), Some(q)) => {
                            a.insert(kk.clone(), json!(p + q));
                        }
                        _ => {
                            a.entry(kk.clone()).or_insert(vv.clone());
                        }
                    }
                }
                *cur = Value::Object(a);
            }
        }
    }
}

fn pick_samples(sorted: &[(usize, Value)], want: usize) -> Vec<Value> {
    if sorted.is_empty() {
        return vec![];
    }
    let mut out = vec![];
    let n = sorted.len();
    let mut last = usize::MAX;
    for k in 0..want {
        let idx = if want == 1 { 0 } else { k * (n - 1) / (want - 1) };
        if idx != last {
            out.push(sorted[idx].1.clone());
            last = idx;
        }
    }
    out
}

// ------------------------------------------------------------------ replay

pub enum ChildVerdict {
    Ok,
    Violation(Vec<Violation>),
    Crash(i32),
    Error(String),
}

pub fn replay_in_child(engine: &str, id: &str, file: &Path) -> ChildVerdict {
    use std::os::unix::process::ExitStatusExt;
    let out = std::process::Command::new(engine).arg("replay-inner").arg(id).arg(file).output();
    match out {
        Err(e) => ChildVerdict::Error(format!("cannot run replay child: {}", e)),
        Ok(o) => {
            if let Some(sig) = o.status.signal() {
                return ChildVerdict::Crash(sig);
            }
            match o.status.code() {
                Some(0) => ChildVerdict::Ok,
                Some(1) => {
                    let txt = String::from_utf8_lossy(&o.stdout);
                    let mut vs = vec![];
                    for line in txt.lines() {
                        if let Some(rest) = line.strip_prefix("REPLAY-VIOLATION ") {
                            if let Ok(v) = serde_json::from_str::<Value>(rest) {
                                vs.push(Violation::from_json(&v));
                            }
                        }
                    }
                    ChildVerdict::Violation(vs)
                }
                other => ChildVerdict::Error(format!(
                    "replay child exit {:?}: {}",
                    other,
                    String::from_utf8_lossy(&o.stderr).chars().take(400).collect::<String>()
                )),
            }
        }
    }
}

/// `replay-inner`: judge the case of one file in this process.
pub fn replay_inner(p: &dyn Property, file: &Path) -> i32 {
    crate::fmlrun::install_panic_hook();
    let txt = match std::fs::read_to_string(file) {
        Ok(t) => t,
        Err(e) => {
            eprintln!("cannot read {}: {}", file.display(), e);
            return 2;
        }
    };
    let v: Value = match serde_json::from_str(&txt) {
        Ok(v) => v,
        Err(e) => {
            eprintln!("cannot parse {}: {}", file.display(), e);
            return 2;
        }
    };
    let mut ctx = Ctx::new(p.id(), Tier::Quick, 0, 0, 1);
    match p.replay(&v["case"], &mut ctx) {
        Ok(()) => 0,
        Err(viol) => {
            println!("REPLAY-VIOLATION {}", serde_json::to_string(&viol.to_json()).unwrap());
            1
        }
    }
}

/// `replay`: user-facing; contains a native crash of the judged case.
pub fn replay_outer(p: &dyn Property, file: &Path) -> i32 {
    let (rel, _) = engine_paths();
    let known = load_known();
    match replay_in_child(&rel, p.id(), file) {
        ChildVerdict::Ok => {
            println!("{} replay {}: holds", p.id(), file.display());
            0
        }
        ChildVerdict::Violation(vs) => {
            let mut real = 0;
            for v in &vs {
                match match_known(&known, p.id(), v) {
                    Some(k) => println!("KNOWN-FINDING: property={} {} [{}]", p.id(), k.what, k.id),
                    None => {
                        real += 1;
                        println!("VIOLATION property={} replay={}", p.id(), file.display());
                        println!("  kind={} {}", v.kind, v.detail.replace('\n', "\n  "));
                    }
                }
            }
            if real > 0 {
                1
            } else {
                0
            }
        }
        ChildVerdict::Crash(sig) => {
            println!("VIOLATION property={} replay={}", p.id(), file.display());
            println!("  kind=native-crash the case kills the process with signal {}", sig);
            1
        }
        ChildVerdict::Error(e) => {
            eprintln!("HARNESS-ERROR: {}", e);
            2
        }
    }
}

/// Deterministic sampling: whether a case also goes through the (expensive) real
/// binary is a function of the tape, so that a failure found there is still a
/// failure when the same tape is re-judged (shrinking, replay).
pub fn tape_sample(tape: &[u8], every: u64) -> bool {
    every <= 1 || mix(digest(tape)) % every == 0
}

pub fn flush() {
    let _ = std::io::stdout().flush();
}

/// Tiny helper used by property modules that run a shrinking search themselves.
pub fn shrink_tape_with(p: &dyn Property, tape: Vec<u8>, ctx: &mut Ctx) -> Vec<u8> {
    // greedy chunk removal, then byte lowering; used for cases found outside proptest
    let mut best = tape;
    let was = ctx.counting;
    ctx.counting = false;
    let mut chunk = best.len() / 2;
    while chunk >= 1 {
        let mut i = 0;
        while i + chunk <= best.len() {
            let mut cand = best.clone();
            cand.drain(i..i + chunk);
            if p.judge_tape(&cand, ctx).is_err() {
                best = cand;
            } else {
                i += chunk;
            }
        }
        chunk /= 2;
    }
    ctx.counting = was;
    best
}

#[allow(dead_code)]
fn _unused(_: &dyn ValueTree<Value = u8>) {}
