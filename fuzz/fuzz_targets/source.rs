#![no_main]
//! C10, thorough tier: coverage-guided search for a source text that makes the toolchain die
//! natively.  The input is source text; parse, compile and a fuel-bounded run happen in-process on
//! a thread whose stack is the size of a real main thread's (8 MiB), so a native stack overflow
//! inside FML kills this process and libFuzzer keeps the input.  Nothing is decided here: the
//! artifact is re-judged on the real release binary by `./check C10 --replay` (case.source_bytes).
use libfuzzer_sys::fuzz_target;
use std::sync::mpsc::{channel, Receiver, Sender};
use std::sync::{Mutex, OnceLock};

struct Worker {
    tx: Sender<Vec<u8>>,
    rx: Receiver<()>,
}

static WORKER: OnceLock<Mutex<Worker>> = OnceLock::new();

fn worker() -> &'static Mutex<Worker> {
    WORKER.get_or_init(|| {
        let (tx, in_rx) = channel::<Vec<u8>>();
        let (out_tx, rx) = channel::<()>();
        std::thread::Builder::new()
            // ASan frames are several times larger than the real binary's: 64 MiB here stands
            // for the 8 MiB main-thread stack of a release binary
            .stack_size(64 << 20)
            .spawn(move || {
                fmlverif::fmlrun::install_panic_hook();
                while let Ok(data) = in_rx.recv() {
                    fmlverif::props::c10::fuzz_one_source(&data);
                    if out_tx.send(()).is_err() {
                        break;
                    }
                }
            })
            .unwrap();
        Mutex::new(Worker { tx, rx })
    })
}

fuzz_target!(|data: &[u8]| {
    let w = worker().lock().unwrap();
    w.tx.send(data.to_vec()).unwrap();
    let _ = w.rx.recv();
});
