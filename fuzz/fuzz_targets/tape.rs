#![no_main]
//! Coverage-guided extension of the thorough tiers: the input is a choice tape,
//! decoded by the SAME total decoder and judged by the SAME in-target oracle as
//! the proptest campaign of the property named by FMLV_PROP.  A violation that is
//! not an open known finding aborts (libFuzzer saves the tape as an artifact);
//! the artifact is re-judged by the normal replay path before anything is reported.
//! Judging happens on one persistent big-stack thread (the reference interpreter
//! and FML's own recursive code are exercised with deep structures).
use fmlverif::harness::{Ctx, Tier};
use libfuzzer_sys::fuzz_target;
use std::sync::mpsc::{channel, Receiver, Sender};
use std::sync::{Mutex, OnceLock};

struct Worker {
    tx: Sender<Vec<u8>>,
    rx: Receiver<Option<String>>,
}

static WORKER: OnceLock<Mutex<Worker>> = OnceLock::new();

fn worker() -> &'static Mutex<Worker> {
    WORKER.get_or_init(|| {
        let (tx, in_rx) = channel::<Vec<u8>>();
        let (out_tx, rx) = channel::<Option<String>>();
        std::thread::Builder::new()
            .stack_size(4 << 30)
            .spawn(move || {
                let id = std::env::var("FMLV_PROP").unwrap_or_else(|_| "C01".to_string());
                let p = fmlverif::props::by_id(&id).expect("unknown property in FMLV_PROP");
                fmlverif::fmlrun::install_panic_hook();
                let mut ctx = Ctx::new(&id, Tier::Thorough, 0, 0, 1);
                ctx.counting = false;
                while let Ok(data) = in_rx.recv() {
                    let r = if data.len() > p.max_tape() {
                        None
                    } else {
                        match p.judge_tape(&data, &mut ctx) {
                            Err(v) if v.kind != "harness-error" => Some(format!("{} {}", v.kind, v.detail.chars().take(400).collect::<String>())),
                            _ => None,
                        }
                    };
                    if out_tx.send(r).is_err() {
                        break;
                    }
                }
            })
            .unwrap();
        Mutex::new(Worker { tx, rx })
    })
}

fuzz_target!(|data: &[u8]| {
    let w = worker().lock().unwrap();
    w.tx.send(data.to_vec()).unwrap();
    if let Ok(Some(v)) = w.rx.recv() {
        eprintln!("FUZZ-VIOLATION {}", v);
        std::process::abort();
    }
});
