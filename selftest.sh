#!/bin/bash
# Sensitivity self-test: apply a patch (or check out a revision) to a scratch copy of FML
# OUTSIDE /repo and /verif, run the named checks against it, and remove everything again.
#   ./selftest.sh <patch-file|rev:REV> <ID>[,<ID>...] [tier]
# Prints one line per check: "<patch> <ID> DETECTED|MISSED|ERROR(rc)".
set -u
VERIF="$(cd "$(dirname "$0")" && pwd)"
SPEC="$1"; IDS="$2"; TIER="${3:-quick}"
case "$SPEC" in rev:*) ;; *) SPEC="$(realpath "$SPEC")";; esac
NAME="$(basename "$SPEC" | tr -c 'A-Za-z0-9._\n-' '_')"
SCRATCH="/var/tmp/fml-mut-$NAME-$$"
rm -rf "$SCRATCH"; mkdir -p "$SCRATCH"
cleanup() { if [ -n "${KEEP_REPLAYS:-}" ]; then mkdir -p "$KEEP_REPLAYS"; cp -r "$SCRATCH/.fmlv-work/replays/." "$KEEP_REPLAYS/" 2>/dev/null; fi; rm -rf "$SCRATCH"; }
trap cleanup EXIT
if [[ "$SPEC" == rev:* ]]; then
  git -C /repo archive "${SPEC#rev:}" | tar -x -C "$SCRATCH" || exit 2
else
  git -C /repo archive HEAD | tar -x -C "$SCRATCH" || exit 2
  ( cd "$SCRATCH" && patch -p1 --quiet < "$SPEC" ) || { echo "$NAME PATCH-DOES-NOT-APPLY"; exit 2; }
fi
mkdir -p "$SCRATCH/.fmlv-build" "$SCRATCH/.fmlv-work"
# reuse the warm dependency builds of the main build dir to save time
for d in fml-debug fml-release engine-release engine-dev; do
  [ -d "$VERIF/.build/$d" ] && cp -a "$VERIF/.build/$d" "$SCRATCH/.fmlv-build/$d"
done
# private copy of the engine sources (without build output)
mkdir -p "$SCRATCH/.fmlv-engine" && cp -a "$VERIF/engine/Cargo.toml" "$VERIF/engine/Cargo.lock" "$VERIF/engine/build.rs" "$VERIF/engine/src" "$SCRATCH/.fmlv-engine/" 2>/dev/null
[ -d "$VERIF/engine/.cargo" ] && cp -a "$VERIF/engine/.cargo" "$SCRATCH/.fmlv-engine/"
export FMLV_ENGINE_SRC="$SCRATCH/.fmlv-engine"
export FML_ROOT="$SCRATCH" FMLV_BUILD="$SCRATCH/.fmlv-build" FMLV_WORK="$SCRATCH/.fmlv-work"
export FMLV_SELFTEST=1 FMLV_EVIDENCE_DIR="$SCRATCH/.fmlv-work/evidence" FMLV_REPLAY_DIR="$SCRATCH/.fmlv-work/replays"
rc_all=0
for ID in ${IDS//,/ }; do
  out="$("$VERIF/check" "$ID" "$TIER" 2>&1)"; rc=$?
  if [ $rc -eq 1 ] && echo "$out" | grep -q "^VIOLATION property=$ID"; then
    echo "$NAME $ID DETECTED: $(echo "$out" | grep -A1 '^VIOLATION' | sed -n 2p | cut -c1-160)"
  elif [ $rc -eq 0 ]; then
    echo "$NAME $ID MISSED"; rc_all=1
  else
    echo "$NAME $ID ERROR($rc): $(echo "$out" | tail -3 | tr '\n' ' ' | cut -c1-300)"; rc_all=2
  fi
done
exit $rc_all
