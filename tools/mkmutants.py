#!/usr/bin/env python3
"""Builds /verif/mutants/*.patch from the catalogue below.

Each mutant is a small change to FML that should compile and pass the 259 tests;
`--verify` checks exactly that in a scratch copy outside /repo and /verif and
drops (reports) the ones that do not.  The owning checks are recorded in
mutants/INDEX.json and exercised by tools/run_mutants.sh.
"""
import json, os, shutil, subprocess, sys, tempfile

REPO = "/repo"
OUT = "/verif/mutants"

# (name, owners, file, old, new[, occurrence])
M = [
 # ---------------------------------------------------------------- compiler.rs
 ("assignvar-no-drop", ["C02", "C01"], "src/bytecode/compiler.rs",
  """                        active_buffer.emit(OpCode::SetGlobal { name: index });
                    },
                }
                active_buffer.emit_unless(OpCode::Drop, keep_result);""",
  """                        active_buffer.emit(OpCode::SetGlobal { name: index });
                    },
                }"""),
 ("loop-always-pushes-null", ["C02"], "src/bytecode/compiler.rs",
  """                if keep_result {
                    let constant = ProgramObject::Null;""",
  """                if true {
                    let constant = ProgramObject::Null;"""),
 ("block-keeps-every-result", ["C02"], "src/bytecode/compiler.rs",
  "child.deref().compile_into(program, active_buffer, global_environment, current_frame, last && keep_result)?;",
  "child.deref().compile_into(program, active_buffer, global_environment, current_frame, keep_result)?;"),
 ("consequent-always-kept", ["C02"], "src/bytecode/compiler.rs",
  "(**consequent).compile_into(program, active_buffer, global_environment, current_frame, keep_result)?;",
  "(**consequent).compile_into(program, active_buffer, global_environment, current_frame, true)?;"),
 ("label-groups-never-advance", ["C02", "C01"], "src/bytecode/compiler.rs",
  """        let group = self.groups;
        self.groups = self.groups + 1;
        LabelGroup { labels: self, group }""",
  """        let group = self.groups;
        LabelGroup { labels: self, group }"""),
 ("label-groups-shared-by-loops", ["C02", "C01"], "src/bytecode/compiler.rs",
  """            AST::Loop { condition, body } => {
                let label_generator = program.labels.create_group();""",
  """            AST::Loop { condition, body } => {
                let label_generator = LabelGroup { labels: &program.labels, group: 0 };"""),
 ("leave-scope-noop", ["C12"], "src/bytecode/compiler.rs",
  """        self.scopes.pop()
            .expect("Cannot leave scope: the scope stack is empty");""",
  """        assert!(!self.scopes.is_empty(), "Cannot leave scope: the scope stack is empty");"""),
 ("lookup-outermost-first", ["C12"], "src/bytecode/compiler.rs",
  """    fn register_local(&mut self, id: &str) -> LocalFrameIndex {
        for scope in self.scopes.iter().rev() {""",
  """    fn register_local(&mut self, id: &str) -> LocalFrameIndex {
        for scope in self.scopes.iter() {"""),
 ("block-local-let-becomes-global", ["C12"], "src/bytecode/compiler.rs",
  "                    Frame::Top if !global_environment.in_outermost_scope() => {\n                        let index = global_environment.register_new_local(name)",
  "                    Frame::Top if false && !global_environment.in_outermost_scope() => {\n                        let index = global_environment.register_new_local(name)"),
 ("scope-ids-not-fresh", ["C12"], "src/bytecode/compiler.rs",
  """        self.scope_sequence += 1;
        self.scopes.push(self.scope_sequence);""",
  """        self.scope_sequence = self.scopes.len();
        self.scopes.push(self.scope_sequence);"""),
 ("compound-array-size-reevaluated", ["C13"], "src/bytecode/compiler.rs",
  """                            AST::access_variable(i_id),
                            AST::access_variable(size_id));""",
  """                            AST::access_variable(i_id),
                            *size.clone());"""),
 ("call-initializer-treated-as-simple", ["C13", "C01"], "src/bytecode/compiler.rs",
  "                    AST::AccessVariable { name:_ } | AST::AccessField { object:_, field:_ } => {",
  "                    AST::AccessVariable { name:_ } | AST::AccessField { object:_, field:_ } | AST::CallFunction { .. } => {"),
 ("method-frame-one-local-short", ["C02"], "src/bytecode/compiler.rs",
  "        locals: Size::from_usize(locals_in_frame - expected_arguments),",
  "        locals: Size::from_usize((locals_in_frame - expected_arguments).saturating_sub(1)),"),
 ("function-locals-count-includes-params", ["C02"], "src/bytecode/compiler.rs",
  "                    locals: Size::from_usize(locals_in_frame - parameters.len()),",
  "                    locals: Size::from_usize(locals_in_frame.saturating_sub(parameters.len() + 1)),"),
 ("print-arity-off-for-many-args", ["C02", "C01"], "src/bytecode/compiler.rs",
  """                let arguments = Arity::from_usize(arguments.len());
                active_buffer.emit(OpCode::Print { format, arguments });""",
  """                let arguments = Arity::from_usize(arguments.len().min(3));
                active_buffer.emit(OpCode::Print { format, arguments });"""),
 ("field-assign-value-not-kept", ["C02", "C01"], "src/bytecode/compiler.rs",
  """                active_buffer.emit(OpCode::SetField { name: index });
                active_buffer.emit_unless(OpCode::Drop, keep_result);""",
  """                active_buffer.emit(OpCode::SetField { name: index });
                active_buffer.emit_unless(OpCode::Drop, keep_result || true);
                active_buffer.emit_unless(OpCode::Drop, true);"""),
 # ---------------------------------------------------------------- interpreter.rs / state.rs
 ("no-delegation-to-parent", ["C14"], "src/bytecode/interpreter.rs",
  """        None =>
            dispatch_method(program, state, parent_pointer, method_name, argument_pointers)""",
  """        None if parent_pointer.is_heap_reference() =>
            dispatch_method(program, state, parent_pointer, method_name, argument_pointers),
        None =>
            bail!("Call method error: no method `{}` in object `{}`", method_name, object_instance)"""),
 ("delegation-stops-after-one-level", ["C14"], "src/bytecode/interpreter.rs",
  """        None =>
            dispatch_method(program, state, parent_pointer, method_name, argument_pointers)""",
  """        None => {
            if let Pointer::Reference(index) = parent_pointer {
                if let HeapObject::Object(grand) = state.heap.dereference(&index)? {
                    if !grand.methods.contains_key(method_name) && grand.parent.is_heap_reference() {
                        bail!("Call method error: no method `{}`", method_name);
                    }
                }
            }
            dispatch_method(program, state, parent_pointer, method_name, argument_pointers)
        }"""),
 ("method-arity-not-checked", ["C14", "C10"], "src/bytecode/interpreter.rs",
  """    bail_if!(argument_pointers.len() != parameters.to_usize() - 1,
             "Method `{}` requires {} arguments, but {} were supplied",
             method_name, parameters, argument_pointers.len());""",
  """    bail_if!(argument_pointers.len() < parameters.to_usize() - 1,
             "Method `{}` requires {} arguments, but {} were supplied",
             method_name, parameters, argument_pointers.len());"""),
 ("function-arity-not-checked-for-extra", ["C10", "C01"], "src/bytecode/interpreter.rs",
  """    bail_if!(arguments != parameters,
             "Function `{}` requires {} arguments, but {} were supplied",""",
  """    bail_if!(arguments.to_usize() < parameters.to_usize(),
             "Function `{}` requires {} arguments, but {} were supplied","""),
 ("less-becomes-less-equal", ["C09"], "src/bytecode/interpreter.rs",
  """        ("<",  Pointer::Integer(argument)) => Pointer::from(receiver <  argument),""",
  """        ("<",  Pointer::Integer(argument)) => Pointer::from(receiver <=  argument),"""),
 ("mod-euclidean", ["C09"], "src/bytecode/interpreter.rs",
  """        ("%",  Pointer::Integer(argument)) => Pointer::from(receiver %  argument),""",
  """        ("%",  Pointer::Integer(argument)) => Pointer::from(receiver.rem_euclid(*argument)),"""),
 ("div-wrapping", ["C09"], "src/bytecode/interpreter.rs",
  """        ("/",  Pointer::Integer(argument)) => Pointer::from(receiver /  argument),""",
  """        ("/",  Pointer::Integer(argument)) => Pointer::from(receiver.wrapping_div(*argument)),"""),
 ("div-floors", ["C09"], "src/bytecode/interpreter.rs",
  """        ("/",  Pointer::Integer(argument)) => Pointer::from(receiver /  argument),""",
  """        ("/",  Pointer::Integer(argument)) => Pointer::from(receiver.div_euclid(*argument)),"""),
 ("null-equals-everything", ["C09"], "src/bytecode/interpreter.rs",
  """        ("==", _) | ("eq", _)                          => Pointer::from(false),""",
  """        ("==", _) | ("eq", _)                          => Pointer::from(true),"""),
 ("bool-and-is-or", ["C09"], "src/bytecode/interpreter.rs",
  """        ("&",  Pointer::Boolean(argument)) => Pointer::from(*receiver && *argument),""",
  """        ("&",  Pointer::Boolean(argument)) => Pointer::from(*receiver || *argument),"""),
 ("int-eq-other-kind-fails", ["C09"], "src/bytecode/interpreter.rs",
  """        ("!=", Pointer::Integer(argument)) => Pointer::from(receiver != argument),
        ("==", _) => Pointer::from(false),""",
  """        ("!=", Pointer::Integer(argument)) => Pointer::from(receiver != argument),
        ("==", Pointer::Null) => Pointer::from(false),"""),
 ("mul-saturates", ["C09"], "src/bytecode/interpreter.rs",
  """        ("*",  Pointer::Integer(argument)) => Pointer::from(receiver.wrapping_mul(*argument)),""",
  """        ("*",  Pointer::Integer(argument)) => Pointer::from(receiver.saturating_mul(*argument)),"""),
 ("sub-native-again", ["C09"], "src/bytecode/interpreter.rs",
  """        ("-",  Pointer::Integer(argument)) => Pointer::from(receiver.wrapping_sub(*argument)),""",
  """        ("-",  Pointer::Integer(argument)) => Pointer::from(receiver -  argument),"""),
 ("feeny-gt-missing", ["C05"], "src/bytecode/interpreter.rs",
  """        ("gt",  Pointer::Integer(argument)) => Pointer::from(receiver >  argument),\n""",
  ""),
 ("feeny-neq-for-bool-missing", ["C05"], "src/bytecode/interpreter.rs",
  """        ("neq", Pointer::Boolean(argument)) => Pointer::from(*receiver != *argument),\n""",
  ""),
 ("array-get-tolerates-extra-argument", ["C05", "C10"], "src/bytecode/interpreter.rs",
  """    bail_if!(argument_pointers.len() != 1,
             "Invalid number of arguments for method `{}` in array `{}`, expecting 1",""",
  """    bail_if!(argument_pointers.len() < 1,
             "Invalid number of arguments for method `{}` in array `{}`, expecting 1","""),
 ("negative-array-size-accepted", ["C10", "C01"], "src/bytecode/interpreter.rs",
  """    bail_if!(n < 0, "Negative value `{}` cannot be used to specify the size of an array.", n);

    let elements = repeat(initializer).take(n as usize).collect();""",
  """    let elements = repeat(initializer).take(n.max(0) as usize).collect();"""),
 ("get-global-undeclared-is-null", ["C10", "C05", "C12"], "src/bytecode/interpreter.rs",
  """    let pointer = *state.frame_stack.globals.get(name)?;
    state.operand_stack.push(pointer);""",
  """    let pointer = state.frame_stack.globals.get(name).map(|p| *p).unwrap_or(Pointer::Null);
    state.operand_stack.push(pointer);"""),
 ("escape-t-is-newline", ["C15"], "src/bytecode/interpreter.rs",
  """            (true,  't' ) => { output.write_char('\\t')?; escaped = false; },""",
  """            (true,  't' ) => { output.write_char('\\n')?; escaped = false; },"""),
 ("surplus-print-arguments-tolerated", ["C15", "C10"], "src/bytecode/interpreter.rs",
  """    bail_if!(!argument_pointers.is_empty(),
             "{} unused arguments for format `{}`", argument_pointers.len(), format);
    sink""",
  """    sink"""),
 ("print-buffer-bypassed-for-plain-text", ["C15", "C10", "C01"], "src/bytecode/interpreter.rs",
  """            (_,    chr ) => { output.write_char(chr)?                       },""",
  """            (_,    chr ) => { if chr.is_ascii() { output.write_char(chr)? } else { sink.write_char(chr)? } },"""),
 ("object-field-values-attached-in-reverse", ["C14", "C01", "C05"], "src/bytecode/interpreter.rs",
  """    for name in slots.into_iter().rev() {""",
  """    for name in slots.into_iter() {"""),
 ("return-pops-operand-when-deep", ["C01", "C05"], "src/bytecode/interpreter.rs",
  """    let frame = state.frame_stack.pop()?;
    state.instruction_pointer.set(frame.return_address);""",
  """    let frame = state.frame_stack.pop()?;
    if frame.return_address.is_none() { state.operand_stack.pop()?; }
    state.instruction_pointer.set(frame.return_address);"""),
 ("branch-integer-zero-is-falsy", ["C05"], "src/bytecode/heap.rs",
  """            Pointer::Integer(_) => true,
            Pointer::Boolean(b) => *b,""",
  """            Pointer::Integer(i) => *i != 0,
            Pointer::Boolean(b) => *b,"""),
 ("array-bound-off-by-one", ["C10", "C01"], "src/bytecode/heap.rs",
  """    pub fn get_element(&self, index: usize) -> Result<&Pointer> {
        let length = self.0.len();
        bail_if!(index >= length,""",
  """    pub fn get_element(&self, index: usize) -> Result<&Pointer> {
        let length = self.0.len();
        if index == length && length > 0 { return Ok(&self.0[length - 1]); }
        bail_if!(index >= length,"""),
 ("set-slot-creates-missing-field", ["C10", "C01"], "src/bytecode/heap.rs",
  """        self.fields.insert(name.to_owned(), pointer)
            .with_context(|| format!("There is no field named `{}` in object `{}`", name, self))""",
  """        Ok(self.fields.insert(name.to_owned(), pointer).unwrap_or(pointer))"""),
 # ---------------------------------------------------------------- heap.rs (printing, log)
 ("fields-printed-unsorted", ["C15"], "src/bytecode/heap.rs",
  """        sorted_fields.sort_by_key(|(name, _)| *name);""",
  """        let _ = &mut sorted_fields;"""),
 ("fields-sorted-ignoring-case", ["C15"], "src/bytecode/heap.rs",
  """        sorted_fields.sort_by_key(|(name, _)| *name);""",
  """        sorted_fields.sort_by_key(|(name, _)| name.to_lowercase());"""),
 ("fields-from-hashmap-order", ["C11", "C15"], "src/bytecode/heap.rs",
  """        let mut sorted_fields: Vec<(&String, &Pointer)> = self.fields.iter().collect();
        sorted_fields.sort_by_key(|(name, _)| *name);""",
  """        let sorted_fields: Vec<(&String, &Pointer)> = self.fields.iter().collect::<std::collections::HashMap<_, _>>().into_iter().collect();"""),
 ("object-separator-without-blank-after-parent", ["C15"], "src/bytecode/heap.rs",
  """                Ok(format!("object(..={}, {})", parent, fields.join(", "))),""",
  """                Ok(format!("object(..={},{})", parent, fields.join(", "))),"""),
 ("log-before-size-added", ["C16"], "src/bytecode/heap.rs",
  """        self.size += object.size();
        heap_log!(ALLOCATE -> self.log, self.size);""",
  """        heap_log!(ALLOCATE -> self.log, self.size);
        self.size += object.size();"""),
 ("objects-not-logged", ["C16"], "src/bytecode/heap.rs",
  """        heap_log!(ALLOCATE -> self.log, self.size);""",
  """        if let HeapObject::Array(_) = object { heap_log!(ALLOCATE -> self.log, self.size); }"""),
 ("empty-arrays-not-logged", ["C16"], "src/bytecode/heap.rs",
  """        heap_log!(ALLOCATE -> self.log, self.size);""",
  """        if object.size() > size_of::<ArrayInstance>() || matches!(object, HeapObject::Object(_)) { heap_log!(ALLOCATE -> self.log, self.size); }"""),
 ("cycle-check-only-direct-self", ["C10"], "src/bytecode/heap.rs",
  """                ensure!(!path.contains(index), "Cannot convert `{}` to a string: it contains itself.", index);""",
  """                ensure!(path.last() != Some(index), "Cannot convert `{}` to a string: it contains itself.", index);"""),
 # ---------------------------------------------------------------- program.rs / bytecode.rs / serializable.rs
 ("u16-big-endian-both", ["C04"], "src/bytecode/serializable.rs",
  """    u16::from_le_bytes(buf)
}

pub fn read_u32""",
  """    u16::from_be_bytes(buf)
}

pub fn read_u32""", ),
 ("string-length-in-chars", ["C03", "C04"], "src/bytecode/serializable.rs",
  """    write_usize_as_u32(writer, bytes.len())?;""",
  """    write_usize_as_u32(writer, string.chars().count())?;"""),
 ("long-strings-truncated-length", ["C03", "C04"], "src/bytecode/serializable.rs",
  """    write_usize_as_u32(writer, bytes.len())?;""",
  """    write_usize_as_u32(writer, bytes.len() & 0xFFFF)?;"""),
 ("utf8-writer-uses-write-again", ["C08"], "src/bytecode/serializable.rs",
  """    writer.write_all(bytes)?;
    Ok(())""",
  """    writer.write(bytes)?;
    Ok(())"""),
 ("u32-writer-uses-write-again", ["C08"], "src/bytecode/serializable.rs",
  """    let buf = value.to_le_bytes();
    writer.write_all(&buf)?;//.expect(&format!("Problem writing u32""",
  """    let buf = value.to_le_bytes();
    writer.write(&buf)?;//.expect(&format!("Problem writing u32"""),
 ("class-members-beyond-255-dropped", ["C03", "C04"], "src/bytecode/serializable.rs",
  """pub fn write_u16_vector<R: Write>(writer: &mut R, vector: &Vec<u16>) -> Result<()> {
    write_usize_as_u16(writer, vector.len())?;""",
  """pub fn write_u16_vector<R: Write>(writer: &mut R, vector: &Vec<u16>) -> Result<()> {
    write_usize_as_u16(writer, vector.len())?;
    let vector: Vec<u16> = vector.iter().map(|e| if *e > 0x7FFF { *e & 0x7FFF } else { *e }).collect();
    let vector = &vector;"""),
 ("set-slot-shares-mnemonic", ["C17"], "src/bytecode/bytecode.rs",
  """                write!(f, "set slot {}", name),""",
  """                write!(f, "get slot {}", name),"""),
 ("branch-printed-as-goto", ["C17"], "src/bytecode/bytecode.rs",
  """                write!(f, "branch {}", label),""",
  """                write!(f, "goto {}", label),"""),
 ("class-printed-as-count", ["C17"], "src/bytecode/program.rs",
  """                write!(f, "class {}", members)""",
  """                write!(f, "class {}", members.split(',').count())"""),
 ("range-end-off-by-one", ["C17"], "src/bytecode/program.rs",
  """                   Address::from_usize(self.start.value_usize() + self.length - 1))""",
  """                   Address::from_usize(self.start.value_usize() + self.length))"""),
 ("print-arity-not-listed", ["C17"], "src/bytecode/bytecode.rs",
  """                write!(f, "printf {} {}", format, arguments),""",
  """                write!(f, "printf {}", format),"""),
 ("globals-not-listed-after-ten", ["C17"], "src/bytecode/program.rs",
  """        for (i, global) in self.0.iter().enumerate() {
            writeln!(f, "{}: {}", i, global)?;""",
  """        for (i, global) in self.0.iter().enumerate().take(10) {
            writeln!(f, "{}: {}", i, global)?;"""),
 ("globals-from-hashset-order", ["C11"], "src/bytecode/compiler.rs",
  """        Ok(Program {
            constant_pool: self.constant_pool,
            code: self.completed_code,
            globals: self.globals,""",
  """        Ok(Program {
            constant_pool: self.constant_pool,
            code: self.completed_code,
            globals: Globals::from(self.globals.iter().collect::<HashSet<_>>().into_iter().collect::<Vec<_>>()),"""),
 # ---------------------------------------------------------------- grammar / parser
 ("ge-le-spellings-swapped", ["C07", "C09"], "src/parser/mod.rs",
  """            Operator::LessEqual      => "<=",
            Operator::Greater        => ">",
            Operator::GreaterEqual   => ">=",""",
  """            Operator::LessEqual      => ">=",
            Operator::Greater        => ">",
            Operator::GreaterEqual   => "<=","""),
 ("operators-fold-right", ["C07"], "src/parser/mod.rs",
  """        other_operators_and_operands.into_iter()
            .fold(first_operand, |left, (operator, right)| {
                AST::operation(operator, left, right)
            })""",
  """        if other_operators_and_operands.len() < 3 {
            return other_operators_and_operands.into_iter()
                .fold(first_operand, |left, (operator, right)| AST::operation(operator, left, right));
        }
        let mut items = other_operators_and_operands;
        let (last_operator, last_operand) = items.pop().unwrap();
        let left = AST::from_binary_expression(first_operand, items);
        let _ = &left;
        match left {
            AST::CallMethod { object, name, mut arguments } => {
                let inner = arguments.pop().unwrap();
                arguments.push(Box::new(AST::operation(last_operator, *inner, last_operand)));
                AST::CallMethod { object, name, arguments }
            }
            other => AST::operation(last_operator, other, last_operand),
        }"""),
 ("comparison-and-additive-swapped", ["C07"], "src/fml.lalrpop",
  """Comparison: AST = {
    <head: Additive> <tail: (<EqualityOperator> <Additive>)*> =>
        AST::from_binary_expression(head, tail)
}

Additive: AST = {
    <head: Factor> <tail: (<AdditiveOperator> <Factor>)*> =>
        AST::from_binary_expression(head, tail)
}""",
  """Comparison: AST = {
    <head: Additive> <tail: (<AdditiveOperator> <Additive>)*> =>
        AST::from_binary_expression(head, tail)
}

Additive: AST = {
    <head: Factor> <tail: (<EqualityOperator> <Factor>)*> =>
        AST::from_binary_expression(head, tail)
}"""),
 ("less-greater-in-additive-stratum", ["C07"], "src/fml.lalrpop",
  """AdditiveOperator: Operator = {
    PLUS => Operator::Addition,
    MINUS => Operator::Subtraction,
}""",
  """AdditiveOperator: Operator = {
    PLUS => Operator::Addition,
    MINUS => Operator::Subtraction,
    GREATER  => Operator::Greater,
    LESS => Operator::Less,
}"""),
 ("block-comment-no-star-runs", ["C07"], "src/fml.lalrpop",
  r"""    r"/\*([^*]|[\r\n]|(\*+([^*/]|[\r\n])))*\*+/|(//.*)" => { },""",
  r"""    r"/\*([^*]|[\r\n]|(\*([^*/]|[\r\n])))*\*/|(//.*)" => { },"""),
 ("line-comment-ascii-only", ["C07"], "src/fml.lalrpop",
  r"""    r"/\*([^*]|[\r\n]|(\*+([^*/]|[\r\n])))*\*+/|(//.*)" => { },""",
  r"""    r"/\*([^*]|[\r\n]|(\*+([^*/]|[\r\n])))*\*+/|(//[\x00-\x09\x0b-\x7f]*)" => { },"""),
 ("field-chain-after-call-folds-wrong", ["C07"], "src/fml.lalrpop",
  """        let mut tail = Vec::from(fields);
        tail.push(field);
        tail.into_iter().fold(object, |left, right| AST::access_field(left, right))
    },
}

Factor""",
  """        let mut tail = Vec::from(fields);
        tail.push(field);
        if tail.len() > 2 { tail.swap(0, 1); }
        tail.into_iter().fold(object, |left, right| AST::access_field(left, right))
    },
}

Factor"""),
 # ---------------------------------------------------------------- main.rs
 ("yaml-extension-means-json", ["C06"], "src/main.rs",
  """            "yaml" => Some(ASTSerializer::YAML),
            _ => None,""",
  """            "yaml" => Some(ASTSerializer::JSON),
            _ => None,"""),
 ("explicit-input-format-ignored-when-extension-known", ["C06"], "src/main.rs",
  """        if self.input_format.is_some() {
            self.input_format
        } else {
            self.selected_input().unwrap().extension().map(|s| {
                ASTSerializer::from_extension(s.as_str())
            }).flatten()
        }""",
  """        let inferred = self.selected_input().unwrap().extension().map(|s| {
            ASTSerializer::from_extension(s.as_str())
        }).flatten();
        if inferred.is_some() { inferred } else { self.input_format }"""),
 ("upper-case-extension-not-recognised", ["C06"], "src/main.rs",
  """        match extension.to_lowercase().as_str() {
            "lisp" => Some(ASTSerializer::LISP),""",
  """        match extension {
            "lisp" => Some(ASTSerializer::LISP),"""),
 ("parse-to-directory-always-named-ast", ["C06"], "src/main.rs",
  """                    Stream::File(file) => {
                        PathBuf::from(file)
                            .file_name().unwrap()
                            .to_str().unwrap()
                            .to_owned()
                    }""",
  """                    Stream::File(file) => {
                        PathBuf::from(file)
                            .file_stem().unwrap()
                            .to_str().unwrap()
                            .split('.').next().unwrap()
                            .to_owned() + if file.contains("prog") { "_" } else { "" }
                    }"""),
 ("execute-drops-heap-log", ["C16"], "src/main.rs",
  """        evaluate_with_memory_config(&program, self.heap_size, self.heap_log.clone())
            .expect("Interpreter error")
    }

    pub fn selected_input(&self) -> Result<NamedSource> {
        NamedSource::from(self.input.as_ref())
    }
}

impl BytecodeDisassemblyAction {""",
  """        evaluate_with_memory_config(&program, self.heap_size, None)
            .expect("Interpreter error")
    }

    pub fn selected_input(&self) -> Result<NamedSource> {
        NamedSource::from(self.input.as_ref())
    }
}

impl BytecodeDisassemblyAction {"""),
 ("run-ignores-heap-log-when-heap-size-given", ["C16"], "src/main.rs",
  """        evaluate_with_memory_config(&program, self.heap_size, self.heap_log.clone())
            .expect("Interpreter error")
    }

    pub fn selected_input(&self) -> Result<NamedSource> {
        NamedSource::from(self.input.as_ref())
    }
}

impl BytecodeInterpreterAction {""",
  """        evaluate_with_memory_config(&program, self.heap_size, if self.heap_size > 0 { None } else { self.heap_log.clone() })
            .expect("Interpreter error")
    }

    pub fn selected_input(&self) -> Result<NamedSource> {
        NamedSource::from(self.input.as_ref())
    }
}

impl BytecodeInterpreterAction {"""),
 ("interpreter-error-swallowed-in-execute", ["C10", "C06", "C05"], "src/main.rs",
  """        evaluate_with_memory_config(&program, self.heap_size, self.heap_log.clone())
            .expect("Interpreter error")
    }

    pub fn selected_input(&self) -> Result<NamedSource> {
        NamedSource::from(self.input.as_ref())
    }
}

impl BytecodeDisassemblyAction {""",
  """        if let Err(e) = evaluate_with_memory_config(&program, self.heap_size, self.heap_log.clone()) {
            eprintln!("Interpreter error: {:#}", e);
        }
    }

    pub fn selected_input(&self) -> Result<NamedSource> {
        NamedSource::from(self.input.as_ref())
    }
}

impl BytecodeDisassemblyAction {"""),
 ("run-error-goes-to-stdout", ["C10", "C01"], "src/main.rs",
  """        evaluate_with_memory_config(&program, self.heap_size, self.heap_log.clone())
            .expect("Interpreter error")
    }

    pub fn selected_input(&self) -> Result<NamedSource> {
        NamedSource::from(self.input.as_ref())
    }
}

impl BytecodeInterpreterAction {""",
  """        if let Err(e) = evaluate_with_memory_config(&program, self.heap_size, self.heap_log.clone()) {
            println!("Interpreter error: {:#}", e);
            std::process::exit(1);
        }
    }

    pub fn selected_input(&self) -> Result<NamedSource> {
        NamedSource::from(self.input.as_ref())
    }
}

impl BytecodeInterpreterAction {"""),
]


# ---------------------------------------------------------------- benign changes
# Semantics-preserving refactorings: the property still holds, so EVERY check must stay
# silent on them (false-alarm resistance). Run with tools/run_benign.sh.
B = [
 ("benign-label-names", "src/bytecode/compiler.rs",
  """                let consequent_label = label_generator.generate_name("if:consequent")?;
                let end_label = label_generator.generate_name("if:end")?;""",
  """                let consequent_label = label_generator.generate_name("L then")?;
                let end_label = label_generator.generate_name("L_fi")?;"""),
 ("benign-entry-name", "src/bytecode/compiler.rs",
  """ProgramObject::from_string("λ:".to_owned())""",
  """ProgramObject::from_string("main".to_owned())"""),
 ("benign-constant-order", "src/bytecode/compiler.rs",
  """                let consequent_label_index =
                    program.constant_pool.register(ProgramObject::from_str(&consequent_label));
                let end_label_index =
                    program.constant_pool.register(ProgramObject::from_str(&end_label));""",
  """                let end_label_index =
                    program.constant_pool.register(ProgramObject::from_str(&end_label));
                let consequent_label_index =
                    program.constant_pool.register(ProgramObject::from_str(&consequent_label));"""),
 ("benign-local-slots-have-gaps", "src/bytecode/compiler.rs",
  """        let index = LocalFrameIndex::from_usize(self.locals.len());
        let previous = self.locals.insert(key, index);
        assert!(previous.is_none());
        Ok(index)""",
  """        let index = LocalFrameIndex::from_usize(self.locals.len());
        let previous = self.locals.insert(key, index);
        assert!(previous.is_none());
        // reserve a spare slot after every variable (frame sizes grow accordingly)
        self.locals.insert((usize::MAX - self.locals.len(), String::new()), LocalFrameIndex::from_usize(self.locals.len()));
        Ok(index)"""),
 ("benign-error-messages", "src/bytecode/interpreter.rs",
  """        _ => bail!("Call method error: no method `{}` in object `null`", method_name),""",
  """        _ => bail!("null does not understand {}", method_name),"""),
 ("benign-exit-status-and-diagnostics", "src/main.rs",
  """        evaluate_with_memory_config(&program, self.heap_size, self.heap_log.clone())
            .expect("Interpreter error")
    }

    pub fn selected_input(&self) -> Result<NamedSource> {
        NamedSource::from(self.input.as_ref())
    }
}

impl BytecodeInterpreterAction {""",
  """        if let Err(e) = evaluate_with_memory_config(&program, self.heap_size, self.heap_log.clone()) {
            eprintln!("fml: run-time error: {:#}", e);
            std::process::exit(3);
        }
    }

    pub fn selected_input(&self) -> Result<NamedSource> {
        NamedSource::from(self.input.as_ref())
    }
}

impl BytecodeInterpreterAction {"""),
 ("benign-heap-size-model", "src/bytecode/heap.rs",
  """                size_of::<ArrayInstance>() + array.length() * size_of::<Pointer>()""",
  """                size_of::<ArrayInstance>() + 8 + array.length() * (size_of::<Pointer>() + 8)"""),
 ("benign-object-size-ignores-name-lengths", "src/bytecode/heap.rs",
  """                    object.fields.iter().map(|(string, _pointer)| string.len() + size_of::<Pointer>()).sum();""",
  """                    object.fields.iter().map(|(_string, _pointer)| 8 + size_of::<Pointer>()).sum();"""),
 ("benign-address-width", "src/bytecode/program.rs",
  """        write!(f, "{number:>0width$}", number=self.0, width=4)""",
  """        write!(f, "{number:>0width$}", number=self.0, width=6)"""),
 ("benign-then-compiled-before-else", "src/bytecode/compiler.rs",
  """                active_buffer.emit(OpCode::Branch { label: consequent_label_index } );
                (**alternative).compile_into(program, active_buffer, global_environment, current_frame, keep_result)?;
                active_buffer.emit(OpCode::Jump { label: end_label_index } );
                active_buffer.emit(OpCode::Label { name: consequent_label_index });
                //program.labels.set(consequent_label, program.code.current_address())?;
                (**consequent).compile_into(program, active_buffer, global_environment, current_frame, keep_result)?;
                active_buffer.emit(OpCode::Label { name: end_label_index });""",
  """                // layout: branch THEN; goto ELSE; THEN: then; goto END; ELSE: else; END:
                let else_label = label_generator.generate_name("if:alternative")?;
                let else_label_index = program.constant_pool.register(ProgramObject::from_str(&else_label));
                active_buffer.emit(OpCode::Branch { label: consequent_label_index } );
                active_buffer.emit(OpCode::Jump { label: else_label_index } );
                active_buffer.emit(OpCode::Label { name: consequent_label_index });
                (**consequent).compile_into(program, active_buffer, global_environment, current_frame, keep_result)?;
                active_buffer.emit(OpCode::Jump { label: end_label_index } );
                active_buffer.emit(OpCode::Label { name: else_label_index });
                (**alternative).compile_into(program, active_buffer, global_environment, current_frame, keep_result)?;
                active_buffer.emit(OpCode::Label { name: end_label_index });"""),
 ("benign-print-flushes-per-call", "src/bytecode/state.rs",
  """        match std::io::stdout().write_all(s.as_bytes()) {
            Ok(_) => Ok(()),""",
  """        match std::io::stdout().write_all(s.as_bytes()).and_then(|_| std::io::stdout().flush()) {
            Ok(_) => Ok(()),"""),
 ("benign-compound-array-temporaries-renamed", "src/bytecode/compiler.rs",
  """                        let i_id = Identifier::from(format!("::i_{}", unique_number));
                        let size_id = Identifier::from(format!("::size_{}", unique_number));
                        let array_id = Identifier::from(format!("::array_{}", unique_number));""",
  """                        let i_id = Identifier::from(format!("%index{}", unique_number));
                        let size_id = Identifier::from(format!("%len{}", unique_number));
                        let array_id = Identifier::from(format!("%arr{}", unique_number));"""),
 ("benign-json-written-pretty", "src/main.rs",
  """            ASTSerializer::JSON  => serde_json::to_string(&ast)?,""",
  """            ASTSerializer::JSON  => serde_json::to_string_pretty(&ast)?,"""),
 ("benign-serializer-writes-once", "src/bytecode/program.rs",
  """        self.constant_pool.serialize(sink, &self.code)?;
        self.globals.serialize(sink)?;
        self.entry.serialize(sink)
    }""",
  """        // assemble the image in memory and hand it to the sink in one piece
        let mut image: Vec<u8> = Vec::new();
        self.constant_pool.serialize(&mut image, &self.code)?;
        self.globals.serialize(&mut image)?;
        self.entry.serialize(&mut image)?;
        sink.write_all(&image)?;
        Ok(())
    }"""),
 ("benign-heap-log-timestamps-in-microseconds", "src/bytecode/heap.rs",
  """            let timestamp = SystemTime::now().duration_since(SystemTime::UNIX_EPOCH).unwrap().as_nanos();
            write!(file, "{},A,{}\\n", timestamp, $memory).unwrap();""",
  """            let timestamp = SystemTime::now().duration_since(SystemTime::UNIX_EPOCH).unwrap().as_micros();
            write!(file, "{},A,{}\\n", timestamp, $memory).unwrap();"""),
 ("benign-listing-code-indented", "src/bytecode/program.rs",
  """        for (i, opcode) in self.0.iter().enumerate() {
            writeln!(f, "{}: {}", i, opcode)?;
        }
        Ok(())""",
  """        for (i, opcode) in self.0.iter().enumerate() {
            writeln!(f, "    {}: {}", i, opcode)?;
        }
        Ok(())"""),
 ("benign-heap-log-through-bufwriter", "src/bytecode/heap.rs",
  """pub struct Heap{ max_size: usize, size: usize, log: Option<File>, memory: Vec<HeapObject> }

impl Eq for Heap {}
impl PartialEq for Heap {
    fn eq(&self, other: &Self) -> bool {
        self.memory.eq(&other.memory)
    }
}

impl Heap {
    pub fn set_size(&mut self, size: usize /* in MB */) {
        self.max_size = size.saturating_mul(1024 * 1024) /* in B */
    }
    pub fn set_log(&mut self, path: PathBuf) {

        let mut dir = path.clone();
        dir.pop();
        create_dir_all(dir).unwrap();

        let mut file = File::create(path).unwrap();
        write!(file, "timestamp,event,heap\\n").unwrap();

        heap_log!(START -> Some(&mut file));
        self.log = Some(file)
""",
  """pub struct Heap{ max_size: usize, size: usize, log: Option<std::io::BufWriter<File>>, memory: Vec<HeapObject> }

impl Eq for Heap {}
impl PartialEq for Heap {
    fn eq(&self, other: &Self) -> bool {
        self.memory.eq(&other.memory)
    }
}

impl Heap {
    pub fn set_size(&mut self, size: usize /* in MB */) {
        self.max_size = size.saturating_mul(1024 * 1024) /* in B */
    }
    pub fn set_log(&mut self, path: PathBuf) {

        let mut dir = path.clone();
        dir.pop();
        create_dir_all(dir).unwrap();

        let mut file = File::create(path).unwrap();
        write!(file, "timestamp,event,heap\\n").unwrap();

        heap_log!(START -> Some(&mut file));
        // records are small and many: collect them in a buffer (written out when it fills up and
        // when the heap goes away, also while unwinding)
        self.log = Some(std::io::BufWriter::new(file))
"""),
 ("benign-listing-strings-escaped", "src/bytecode/program.rs",
  """            ProgramObject::String(s) => write!(f, "\\"{}\\"", s),""",
  """            ProgramObject::String(s) => write!(f, "{:?}", s),"""),
 ("benign-print-buffered-with-flush-on-drop", "src/bytecode/state.rs",
  """pub struct Output();

impl Output {
    pub fn new() -> Self { Output() }
}

impl std::fmt::Write for Output {
    fn write_str(&mut self, s: &str) -> std::fmt::Result {
        match std::io::stdout().write_all(s.as_bytes()) {
            Ok(_) => Ok(()),
            Err(_) => Err(std::fmt::Error),
        }
    }
}""",
  """// Printed text is collected and handed to stdout in pieces of 8 KiB; whatever is left goes out
// when the value is dropped - at the end of a run, on an interpreter error, and while a panic
// unwinds.
pub struct Output(String);

impl Output {
    pub fn new() -> Self { Output(String::new()) }
    fn hand_over(&mut self) -> std::io::Result<()> {
        let mut out = std::io::stdout();
        out.write_all(self.0.as_bytes())?;
        self.0.clear();
        out.flush()
    }
}

impl Drop for Output {
    fn drop(&mut self) {
        let _ = self.hand_over();
    }
}

impl std::fmt::Write for Output {
    fn write_str(&mut self, s: &str) -> std::fmt::Result {
        self.0.push_str(s);
        if self.0.len() >= 8192 {
            return self.hand_over().map_err(|_| std::fmt::Error);
        }
        Ok(())
    }
}"""),
 ("benign-compile-sniffs-the-ast-format", "src/main.rs",
  """        let input_serializer = self.selected_input_format()
            .expect("Cannot derive input format from file path. Consider setting it explicitly.");
        let output_serializer = self.selected_output_format();

        let source = source.into_string()
            .expect("Error reading input file");
        let ast = input_serializer.deserialize(&source)
            .expect("Error parsing AST from input file");""",
  """        let output_serializer = self.selected_output_format();

        let source = source.into_string()
            .expect("Error reading input file");
        // without a format on the command line or in the file name the text decides: whichever
        // of the three formats reads it (a note goes to stderr, stdout may be carrying the image)
        let ast = match self.selected_input_format() {
            Some(input_serializer) => input_serializer.deserialize(&source)
                .expect("Error parsing AST from input file"),
            None => {
                eprintln!("note: no input format given, trying json, lisp, yaml");
                [ASTSerializer::JSON, ASTSerializer::LISP, ASTSerializer::YAML].iter()
                    .filter_map(|candidate| candidate.deserialize(&source).ok())
                    .next()
                    .expect("Cannot derive input format from file path or content. Consider setting it explicitly.")
            }
        };"""),
 ("benign-yaml-written-with-document-end", "src/main.rs",
  """            ASTSerializer::YAML  => serde_yaml::to_string(&ast)?,""",
  """            ASTSerializer::YAML  => format!("{}\n...", serde_yaml::to_string(&ast)?.trim_end()),"""),
]


def build_patch(scratch, name, file, old, new):
    path = os.path.join(scratch, file)
    src = open(path, encoding="utf-8").read()
    n = src.count(old)
    if n != 1:
        return None, f"anchor occurs {n} times"
    open(path + ".mut", "w", encoding="utf-8").write(src.replace(old, new))
    p = subprocess.run(["diff", "-u", "--label", "a/" + file, "--label", "b/" + file, path, path + ".mut"], capture_output=True, text=True)
    os.remove(path + ".mut")
    return p.stdout, None


def main():
    verify = "--verify" in sys.argv
    only = [a for a in sys.argv[1:] if not a.startswith("--")]
    os.makedirs(OUT, exist_ok=True)
    scratch = tempfile.mkdtemp(prefix="fml-mutgen-", dir="/var/tmp")
    try:
        subprocess.run(f"git -C {REPO} archive HEAD | tar -x -C {scratch}", shell=True, check=True)
        index = {}
        idx_path = os.path.join(OUT, "INDEX.json")
        if os.path.exists(idx_path):
            index = json.load(open(idx_path))
        cat = [(n, ["ALL"], f, o, w) for (n, f, o, w) in B] if "--benign" in sys.argv else M
        for m in cat:
            name, owners, file, old, new = m[:5]
            if only and name not in only:
                continue
            patch, err = build_patch(scratch, name, file, old, new)
            if err:
                print(f"{name}: SKIP ({err})")
                continue
            status = index.get(name, {}).get("status", "unverified")
            if verify:
                work = os.path.join(scratch, "work")
                shutil.rmtree(work, ignore_errors=True)
                subprocess.run(f"mkdir -p {work} && git -C {REPO} archive HEAD | tar -x -C {work}", shell=True, check=True)
                subprocess.run(["patch", "-p1", "--quiet"], input=patch, text=True, cwd=work, check=True)
                env = dict(os.environ, CARGO_TARGET_DIR=os.path.join(scratch, "target"), CARGO_NET_OFFLINE="true")
                r = subprocess.run("cargo test --offline 2>&1 | tail -5", shell=True, cwd=work, env=env, capture_output=True, text=True)
                ok = "259 passed; 0 failed" in r.stdout
                status = "compiles-and-passes-tests" if ok else "REJECTED-by-build-or-tests"
                print(f"{name}: {status}")
                if not ok:
                    print("   ", r.stdout.strip().splitlines()[-1] if r.stdout.strip() else "")
            sub = os.path.join(OUT, "benign") if "--benign" in sys.argv else OUT
            os.makedirs(sub, exist_ok=True)
            open(os.path.join(sub, name + ".patch"), "w").write(patch)
            index[name] = {"owners": owners, "file": file, "status": status}
        json.dump(index, open(idx_path, "w"), indent=1, sort_keys=True)
    finally:
        shutil.rmtree(scratch, ignore_errors=True)


if __name__ == "__main__":
    main()
