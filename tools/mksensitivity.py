#!/usr/bin/env python3
"""Builds /verif/SENSITIVITY.md from mutants/INDEX.json, mutants/RESULTS.txt and seeded/*/meta.json
and embeds it into DESIGN.md section 8 (between the SENSITIVITY markers)."""
import json, glob, os, re
V="/verif"
idx=json.load(open(f"{V}/mutants/INDEX.json"))
res={}
for l in open(f"{V}/mutants/RESULTS.txt"):
    m=re.match(r"(\S+)\.patch (C\d+) (DETECTED|MISSED|ERROR\(\d+\)|PATCH\S*)[: ]*(.*)", l.strip())
    if m:
        res.setdefault(m.group(1),{})[m.group(2)]=(m.group(3), m.group(4))
out=[]
out.append("### 8.1 Own mutants (`mutants/*.patch`, `tools/mkmutants.py --verify`, `tools/run_mutants.sh`)\n")
out.append("Each mutant compiles and passes the 259 tests (verified in a scratch copy); it is applied to a scratch copy of FML outside /repo and /verif and the owning checks run in their quick tier. Candidates that the test suite itself rejects were dropped from the catalogue (listed at the end).\n")
out.append("| mutant | file | result per owning check |")
out.append("|---|---|---|")
det=miss=0
rejected=[]; equivalent=[]
for name in sorted(idx):
    m=idx[name]
    if name.startswith('benign'): continue  # section 8.3
    st=m.get('status','')
    if st.startswith('REJECTED'):
        rejected.append(name); continue
    if st.startswith('equivalent'):
        equivalent.append((name,st)); continue
    r=res.get(name,{})
    cells=[]
    for o in m['owners']:
        if o in r:
            s,d=r[o]
            if s=='DETECTED':
                det+=1
                k=re.search(r"kind=(\S+)",d)
                cells.append(f"{o}: detected ({k.group(1) if k else ''})")
            else:
                miss+=1
                cells.append(f"{o}: **{s.lower()}**")
        else:
            cells.append(f"{o}: not run")
    out.append(f"| {name} | {os.path.basename(m['file'])} | {'; '.join(cells)} |")
out.append("")
out.append(f"Totals: {det} detections, {miss} misses over mutant x owning-check pairs.")
out.append("")
if equivalent:
    out.append("Equivalent mutants (no observable difference, removed from the count): " + "; ".join(f"`{n}` - {s}" for n,s in equivalent) + ".")
    out.append("")
out.append("Candidates rejected by the existing test suite (so not usable as \"passes the tests\" mutants): " + ", ".join(f"`{n}`" for n in rejected) + ".")
out.append("")
out.append("Misses in the first catalogue run and what was changed (all detected now): `array-get-tolerates-extra-argument` (C10 had no surplus-argument fault for built-in get/set: three fault classes added), `interpreter-error-swallowed-in-execute` (C10 only used `fml run`: every 7th injection now goes through `fml execute`), `long-strings-truncated-length` and `class-members-beyond-255-dropped` (model generator had no string >= 64 KiB and no pool > 32767 entries: both added, the huge pool with a deterministic bulk because a 900-byte tape cannot drive 33k choices), `explicit-input-format-ignored-when-extension-known` (C06 had no configuration with a misleading extension: added), `print-buffer-bypassed-for-plain-text` (C10's failing prints were ASCII only: now non-ASCII).")
out.append("")
out.append("### 8.2 Independently seeded changes (`seeded/<ID>-<round>/`)\n")
out.append("Written by fresh sub-agents that saw only the text of one property and a scratch worktree of FML (nothing from /verif). Each was confirmed by `tools/verify_seed.sh` (applies, 259 tests pass, release build, demo exits 0 without / 1 with the change) and then run through `./selftest.sh`.\n")
import collections
rounds=collections.defaultdict(lambda:[0,0])
for d in sorted(glob.glob(f"{V}/seeded/*/meta.json")):
    m=json.load(open(d)); suf=os.path.basename(os.path.dirname(d)).split('-')[1]
    own=m['results'].get(m['property'],'')
    rounds[suf][0]+=1
    low=own.lower()
    if 'first version' in low or 'first catalogue' in low or low.startswith('detected after') or low.startswith('detected (after') or low.startswith('detected (quick, after') or low.startswith('missed') or 'added after' in low:
        rounds[suf][1]+=1
still=[os.path.basename(os.path.dirname(d)) for d in sorted(glob.glob(f"{V}/seeded/*/meta.json")) if json.load(open(d))['results'].get(json.load(open(d))['property'],'').lower().startswith('missed')]
out.append("Rounds: " + "; ".join(f"-{k}: {v[0]} changes, {v[1]} not caught by the owning check as it was then (each led to the strengthening named in its row)" for k,v in sorted(rounds.items())) + ". Still not caught by the owning check, for the reason given in the row: " + (", ".join(still) if still else "none") + ". The owning check is the one for the property the sub-agent was given; other checks that were tried are listed as well, a miss by a non-owner is not a defect of that check.\n")
out.append("| seed | what it needs to manifest | checks (quick tier) |")
out.append("|---|---|---|")
for d in sorted(glob.glob(f"{V}/seeded/*/meta.json")):
    m=json.load(open(d))
    name=os.path.basename(os.path.dirname(d))
    r="; ".join(f"{k}: {v}" for k,v in m['results'].items())
    out.append(f"| {name} ({m['property']}) | {m['needs_to_manifest']} | {r} |")
out.append("")
out.append("### 8.3 Semantics-preserving changes (`mutants/benign/*.patch`, `tools/run_benign.sh`): every check must stay silent\n")
br=[l for l in open(f"{V}/mutants/benign/RESULTS.txt").read().splitlines() if l.strip()]
silent=sum(1 for l in br if " MISSED" in l)
loud=[l for l in br if " MISSED" not in l]
names=sorted(set(l.split(".patch")[0] for l in br))
out.append("Changes after which the properties still hold (other label names, another entry-method name, another constant order, spare local slots, reworded diagnostics, exit status 3 instead of a panic, another heap size model incl. one that ignores name lengths, wider addresses in the listing, stdout flushed per print, renamed compound-array temporaries, YAML written with a document-end marker, JSON written pretty-printed, the image assembled in memory and written in one call, heap-log timestamps in microseconds, heap log through a BufWriter, code lines of the listing indented): " + ", ".join(f"`{n}`" for n in names) + ". Each was run against all 17 checks (quick tier).")
out.append("")
out.append(f"Result: {silent} check runs silent, {len(loud)} alarms." + (" Alarms: " + "; ".join(loud) if loud else " (Alarms of earlier runs, all fixed in the machinery and recorded in section 9: the C10 false alarm of item 9 and the listing-layout false alarm of C17/C04 in item 12.)"))
out.append("")
text="\n".join(out)+"\n"
open(f"{V}/SENSITIVITY.md","w").write("# Sensitivity of the checks\n\n(generated by tools/mksensitivity.py; the same tables are embedded in DESIGN.md section 8)\n\n"+text)
d=open(f"{V}/DESIGN.md").read()
if "SENSITIVITY_TABLES" in d:
    d=d.replace("SENSITIVITY_TABLES","<!-- SENSITIVITY-BEGIN -->\n"+text+"<!-- SENSITIVITY-END -->")
else:
    d=re.sub(r"<!-- SENSITIVITY-BEGIN -->.*<!-- SENSITIVITY-END -->","<!-- SENSITIVITY-BEGIN -->\n"+text.replace("\\","\\\\")+"<!-- SENSITIVITY-END -->",d,flags=re.S)
open(f"{V}/DESIGN.md","w").write(d)
print("ok",det,miss)
