#!/bin/bash
# Runs every verified mutant of mutants/INDEX.json against its owning checks (quick tier),
# PAR at a time, and writes mutants/RESULTS.txt (one line per mutant x check).
set -u
cd "$(dirname "$0")/.."
PAR="${PAR:-3}"
ONLY="${1:-}"
python3 - "$ONLY" <<'PY' > /tmp/mutant-jobs.txt
import json,sys
idx=json.load(open('mutants/INDEX.json'))
only=sys.argv[1]
for name,m in sorted(idx.items()):
    if m.get('status')!='compiles-and-passes-tests' or name.startswith('benign'): continue
    if only and only not in name and only not in m['owners']: continue
    print(name, ",".join(m['owners']))
PY
: > mutants/RESULTS.partial
cat /tmp/mutant-jobs.txt | xargs -P "$PAR" -L 1 bash -c './selftest.sh mutants/$0.patch $1 2>&1 | grep -E "DETECTED|MISSED|ERROR|PATCH" | cut -c1-220 >> mutants/RESULTS.partial'
sort mutants/RESULTS.partial > mutants/RESULTS.txt; rm -f mutants/RESULTS.partial /tmp/mutant-jobs.txt
grep -c DETECTED mutants/RESULTS.txt; grep -E "MISSED|ERROR|PATCH" mutants/RESULTS.txt
