#!/bin/bash
# False-alarm resistance: every check must stay silent on semantics-preserving changes
# (mutants/benign/*.patch). Writes mutants/benign/RESULTS.txt.
set -u
cd "$(dirname "$0")/.."
ALL="C01,C02,C03,C04,C05,C06,C07,C08,C09,C10,C11,C12,C13,C14,C15,C16,C17"
: > mutants/benign/RESULTS.partial
for p in mutants/benign/*.patch; do
  ./selftest.sh "$p" "$ALL" 2>&1 | grep -E "DETECTED|MISSED|ERROR|PATCH" | cut -c1-260 >> mutants/benign/RESULTS.partial
done
sort mutants/benign/RESULTS.partial > mutants/benign/RESULTS.txt; rm -f mutants/benign/RESULTS.partial
echo "alarms on benign changes (must be 0):"; grep -c -E "DETECTED|ERROR" mutants/benign/RESULTS.txt; grep -E "DETECTED|ERROR" mutants/benign/RESULTS.txt
