#!/bin/bash
# Confirms a seeded change: applies <dir>/patch.diff to a scratch copy of /repo HEAD (outside /repo and /verif),
# checks that it builds and passes the 259 tests, that demo.sh exits 0 without it and 1 with it.
set -u
DIR="$1"
S="/var/tmp/seedchk-$$"
rm -rf "$S"; mkdir -p "$S/plain" "$S/patched"
trap 'rm -rf "$S"' EXIT
git -C /repo archive HEAD | tar -x -C "$S/plain"
git -C /repo archive HEAD | tar -x -C "$S/patched"
( cd "$S/patched" && patch -p1 --quiet < "$DIR/patch.diff" ) || { echo "PATCH-DOES-NOT-APPLY"; exit 2; }
export CARGO_NET_OFFLINE=true
( cd "$S/patched" && cargo test --offline 2>&1 | grep -E "^test result" ) | tee "$S/t.txt"
grep -q "259 passed; 0 failed" "$S/t.txt" || { echo "TESTS-DO-NOT-PASS-WITH-PATCH"; exit 3; }
( cd "$S/patched" && cargo build --offline --release >/dev/null 2>&1 ) || { echo "RELEASE-BUILD-FAILS"; exit 3; }
bash "$DIR/demo.sh" "$S/plain" > "$S/d0.txt" 2>&1; r0=$?
bash "$DIR/demo.sh" "$S/patched" > "$S/d1.txt" 2>&1; r1=$?
echo "demo without patch: exit $r0; with patch: exit $r1"
[ $r0 -eq 0 ] && [ $r1 -eq 1 ] && echo "SEED-CONFIRMED" || { echo "SEED-NOT-CONFIRMED"; tail -n 5 "$S/d0.txt"; tail -n 5 "$S/d1.txt"; exit 4; }
