#!/usr/bin/env python3
"""Stores confirmed seeded changes under /verif/seeded/<ID>-<suffix>/.

usage: store_seeds.py <suffix> <metas.json> [src-root]

metas.json: {"C01": {"needs": "...", "results": {"C01": "detected ..."}, "run": "C01,C10", "origin": "..."}, ...}
The deliverables of seed <ID> are taken from <src-root>/seed-<ID>-out (default src-root /tmp).
Nothing is deleted here; the script fails loudly if a deliverable is missing, so that the caller
removes scratch directories only after a successful run.
"""
import json, os, shutil, sys

suffix, metas = sys.argv[1], json.load(open(sys.argv[2]))
root = sys.argv[3] if len(sys.argv) > 3 else "/tmp"
DEFAULT_ORIGIN = ("independent sub-agent given only the property text and a scratch worktree, told to avoid the "
                  "mechanisms of the earlier changes and to look for combinations, orders, positions and kinds of value")
for pid, m in metas.items():
    src = f"{root}/seed-{pid}-out"
    for f in ("patch.diff", "demo.sh"):
        if not os.path.isfile(f"{src}/{f}") or os.path.getsize(f"{src}/{f}") == 0:
            sys.exit(f"MISSING {src}/{f}: nothing stored for {pid}")
for pid, m in metas.items():
    src = f"{root}/seed-{pid}-out"
    d = f"/verif/seeded/{pid}-{suffix}"
    os.makedirs(d, exist_ok=True)
    for f in ("patch.diff", "demo.sh", "NOTES.md"):
        if os.path.isfile(f"{src}/{f}"):
            shutil.copy(f"{src}/{f}", d)
    meta = {
        "property": pid,
        "origin": m.get("origin", DEFAULT_ORIGIN),
        "needs_to_manifest": m["needs"],
        "confirmed_by": "tools/verify_seed.sh: patch applies to /repo HEAD, cargo test --offline 259 passed with the patch, "
                        "release build ok, demo.sh exits 0 without and 1 with the patch",
        "checks_run": f"./selftest.sh seeded/{pid}-{suffix}/patch.diff {m['run']} (quick tier, scratch copy under /var/tmp)",
        "results": m["results"],
    }
    json.dump(meta, open(f"{d}/meta.json", "w"), indent=1)
    print("stored", d)
print("OK", len(metas))
