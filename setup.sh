#!/bin/bash
# Builds the verification engine (dev+release) and the real fml binary (debug+release) offline.
set -u
cd "$(dirname "$0")"
exec ./check --setup
